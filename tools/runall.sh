#!/bin/bash
# runs the quick check of every claimed property; prints one line per property
cd /verif
for p in $(python3 -c "import json;print(' '.join(c['property_id'] for c in json.load(open('MANIFEST.json'))['checks']))"); do
  out=$(./bin/check $p ${1:-quick} 2>&1); rc=$?
  echo "$p rc=$rc $(echo "$out" | grep '^property' | cut -c1-150)"
  echo "$out" | grep "VIOLATION\|ENGINE" | cut -c1-250 | head -3
done
