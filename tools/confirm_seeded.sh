#!/bin/bash
# Confirms the sub-agent deliverables in a scratch worktree: patch applies, suite green, demo fails with / passes without.
# usage: confirm_seeded.sh <incoming-dir> <out-json>
export GOFLAGS=-mod=mod GOPROXY=off GOSUMDB=off GOTOOLCHAIN=local
IN=${1:-/verif/seeded/_incoming}; OUT=${2:-/verif/seeded/confirm.jsonl}
WT=/tmp/seedwt
git -C /repo worktree remove --force $WT 2>/dev/null; rm -rf $WT
git -C /repo worktree add -q --detach $WT HEAD || exit 1
: > $OUT
for d in $IN/C*; do
  id=$(basename $d)
  for v in A B; do
    [ -f $d/$v.patch ] || continue
    cd $WT && git checkout -q -- . && git clean -fdq
    meta=$d/$v.meta.json
    pkgdir=$(python3 -c "import json;print(json.load(open('$meta')).get('demo_pkg_dir','').strip('/'))" 2>/dev/null)
    [ -z "$pkgdir" ] && pkgdir=$(head -3 $d/${v}_demo_test.go | grep -o 'module/x/[a-z0-9/_]*\|minter-connector/[a-z0-9/_]*' | head -1)
    applies=true; git apply --check $d/$v.patch 2>/dev/null || applies=false
    suite=skip; demo_with=skip; demo_without=skip
    if $applies; then
      mod=module; rel=./${pkgdir#module/}
      case "$pkgdir" in minter-connector/*) mod=minter-connector; rel=./${pkgdir#minter-connector/};; esac
      MF=""
      if [ $mod = minter-connector ]; then mkdir -p /tmp/seedmf; sed "s|=> ../../mhub2/module|=> $WT/module|" $WT/minter-connector/go.mod > /tmp/seedmf/go.mod; cp $WT/minter-connector/go.sum /tmp/seedmf/; MF="-modfile=/tmp/seedmf/go.mod"; fi
      cp $d/${v}_demo_test.go $WT/$pkgdir/zz_seed_demo_test.go
      # without patch
      (cd $WT/$mod && go test $MF -vet=off -count=1 -timeout 300s -run 'ZZMut|TestMut|Mut' $rel >/tmp/seed_wo.log 2>&1) && demo_without=pass || demo_without=fail
      git apply $d/$v.patch
      (cd $WT/$mod && go test $MF -vet=off -count=1 -timeout 300s -run 'ZZMut|TestMut|Mut' $rel >/tmp/seed_w.log 2>&1) && demo_with=pass || demo_with=fail
      rm -f $WT/$pkgdir/zz_seed_demo_test.go
      (cd $WT/module && go build ./... >/dev/null 2>&1 && go test -vet=off -count=1 -timeout 600s ./x/... >/tmp/seed_suite.log 2>&1) && suite=green || suite=red
    fi
    echo "{\"id\":\"$id-$v\",\"applies\":$applies,\"suite\":\"$suite\",\"demo_with_patch\":\"$demo_with\",\"demo_without_patch\":\"$demo_without\",\"pkg\":\"$pkgdir\"}" >> $OUT
  done
done
cd /; git -C /repo worktree remove --force $WT; rm -rf /tmp/seedmf /tmp/seed_*.log
echo done >> $OUT
