#!/bin/bash
# rewrites /verif/solver_hints.json: for every claimed property, which back end decided each obligation that z3-new
# did not decide first. Performance data only (the order in which the three back ends are started); run it after
# contract or engine changes, then commit the file.
cd /verif
export GOFLAGS=-mod=mod GOPROXY=off GOSUMDB=off GOTOOLCHAIN=local
for p in $(python3 -c "import json;print(' '.join(c['property_id'] for c in json.load(open('MANIFEST.json'))['checks']))"); do
  ./bin/govc check -prop $p -no-evidence -write-hints 2>&1 | grep "^property" | cut -c1-120
done
python3 -c "import json,collections; h=json.load(open('/verif/solver_hints.json')); print(len(h), collections.Counter(h.values()))"
