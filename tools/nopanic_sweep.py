#!/usr/bin/env python3
"""experiment: try `nopanic C05` on every contract that lacks it, on scratch copies of /repo (4 workers); log which
functions verify as they stand and the failing obligations of the others. Changes nothing in /repo."""
import re,glob,subprocess,sys,os,shutil
from concurrent.futures import ThreadPoolExecutor
W=4
def names_of(root):
    out=[]
    for p in sorted(glob.glob(root+'/module/x/*/zz_contracts_verif.go')+glob.glob(root+'/module/x/*/*/zz_contracts_verif.go')):
        s=open(p).read()
        for b in re.split(r'(?m)^(?=//@ func )',s)[1:]:
            name=b.split('\n')[0][9:]
            if 'nopanic' in b or '//@ assumed' in b: continue
            out.append((p[len(root):],name))
    return out
done=set(l.split(' :: ')[0].split(' ',1)[1] for l in open('/verif/out/nopanic_sweep.log') if l[:4] in ('PASS','FAIL')) if os.path.exists('/verif/out/nopanic_sweep.log') else set()
todo=[t for t in names_of('/repo') if t[1] not in done]
logf=open('/verif/out/nopanic_sweep.log','a')
def patch(p,name):
    s=open(p).read()
    m=re.search(r'^//@ func '+re.escape(name)+r'\n//@ prop ([^\n]*)\n',s,re.M)
    if not m: raise KeyError(name)
    props=m.group(1).split()
    if 'C05' not in props: props.append('C05')
    s=s[:m.start()]+'//@ func %s\n//@ prop %s\n//@ nopanic C05\n'%(name,' '.join(props))+s[m.end():]
    open(p,'w').write(s)
def work(k):
    root='/root/scratch/repo%d'%k
    shutil.rmtree(root,ignore_errors=True)
    subprocess.run(['rsync','-a','--exclude=.git','/repo/',root+'/'])
    env=dict(os.environ,GOFLAGS='-mod=mod',GOPROXY='off',GOSUMDB='off',GOTOOLCHAIN='local',GOVC_REPO=root,GOVC_OUT='/root/scratch/out%d'%k)
    for i,(rel,name) in enumerate(todo):
        if i%W!=k: continue
        p=root+rel
        before=open(p).read()
        try: patch(p,name)
        except KeyError:
            logf.write('SKIP %s (no prop line directly after func)\n'%name); continue
        only=name.replace(') ',').',1)
        r=subprocess.run(['/verif/bin/govc','check','-prop','C05','-only',only,'-no-evidence'],capture_output=True,text=True,env=env,cwd='/verif')
        out=r.stdout+r.stderr
        bad=[l.split('obligation=')[1][:200] for l in out.splitlines() if 'obligation=' in l]
        summ=[l for l in out.splitlines() if l.startswith('property C05')]
        ok = r.returncode==0 and not bad
        txt='%s %s :: %s\n'%('PASS' if ok else 'FAIL',name,summ[-1] if summ else out[-300:].replace('\n',' | '))
        for b in bad[:14]: txt+='      '+b+'\n'
        logf.write(txt); logf.flush()
        open(p,'w').write(before)
    shutil.rmtree(root,ignore_errors=True); shutil.rmtree('/root/scratch/out%d'%k,ignore_errors=True)
with ThreadPoolExecutor(W) as ex: list(ex.map(work,range(W)))
logf.write('DONE\n'); logf.close()
