#!/usr/bin/env python3
"""Generates /verif/seeded/README.md from the seeded/<id>/meta.json files and seeded/matrix.json."""
import json, os
ids = sorted(d for d in os.listdir("/verif/seeded") if os.path.isfile(f"/verif/seeded/{d}/patch.diff"))
matrix = {r["id"]: r for r in json.load(open("/verif/seeded/matrix.json"))} if os.path.exists("/verif/seeded/matrix.json") else {}
manifest = json.load(open("/verif/MANIFEST.json"))
props = [c["property_id"] for c in manifest["checks"]]
out = []
out.append("# Seeded changes\n")
out.append("Each directory holds one property-breaking change written by a fresh sub-agent that was given only the property\n"
           "text and its own scratch worktree of /repo (nothing from /verif): `patch.diff`, the demonstration test\n"
           "`demo_test.go` (fails with the patch, passes without) and `meta.json` (property, what the change needs to\n"
           "manifest, what was run to confirm it). Every change was confirmed again at the current /repo HEAD with\n"
           "`tools/confirm_seeded.py` (scratch worktree: patch applies, demonstration passes without and fails with the\n"
           "patch, module builds and the pinned suite is green with it); `meta.json.confirmed_at_head` has the result.\n"
           "None of these patches is ever committed in /repo.\n")
out.append("The catch matrix below is produced by `tools/seed_matrix.py`: every claimed quick check is run against every\n"
           "change in scratch worktrees (the engine is pointed at the worktree with GOVC_REPO). `own` = caught by the check of\n"
           "the property the change was written for. A check 'catches' a change when it exits 1 with a VIOLATION line.\n")
out.append("| change | property | own check | other checks that catch it | failing obligations of the own check (first two) |")
out.append("|---|---|---|---|---|")
n_own = n_any = n_tot = 0
missed = []
for mid in ids:
    meta = json.load(open(f"/verif/seeded/{mid}/meta.json"))
    prop = meta["property"]
    r = matrix.get(mid)
    if meta.get("status_at_head", "").startswith("NOT CONFIRMED"):
        out.append(f"| {mid} | {prop} | (not counted) | | demonstration no longer fails at HEAD: {meta['status_at_head'][:120]} |")
        continue
    if not r or not r.get("applies"):
        out.append(f"| {mid} | {prop} | patch does not apply at HEAD | | |")
        continue
    n_tot += 1
    ch = r["checks"]
    own = ch.get(prop)
    owns = "not claimed" if own is None else ("**caught**" + (" (replayed)" if own.get("replayed") else "") if own["rc"] == 1 else ("engine error" if own["rc"] == 2 else "missed"))
    others = [p for p in props if p != prop and ch.get(p, {}).get("rc") == 1]
    if own and own["rc"] == 1:
        n_own += 1
    if (own and own["rc"] == 1) or others:
        n_any += 1
    else:
        missed.append(mid)
    obl = "; ".join(v.split("/", 2)[-1] for v in (own or {}).get("violations", [])[:2]) if own else ""
    out.append(f"| {mid} | {prop} | {owns} | {', '.join(others)} | {obl} |")
out.append("")
out.append(f"Counted changes: {n_tot}; caught by the check of their own property: {n_own}; caught by some check: {n_any}; missed by all: {', '.join(missed) if missed else 'none'}.\n")
out.append("## What each change needs to manifest\n")
for mid in ids:
    meta = json.load(open(f"/verif/seeded/{mid}/meta.json"))
    out.append(f"* **{mid}** ({meta['property']}): {(meta.get('summary') or '').strip()}  \n  needs: {(meta.get('needs_to_manifest') or '').strip()}")
open("/verif/seeded/README.md", "w").write("\n".join(out) + "\n")
print("written", len(ids), "changes; matrix entries", len(matrix))
