#!/bin/bash
# run before committing an engine change: every claimed check must exit 0 on the unchanged tree
cd /verif
fail=0
while read -r line; do echo "$line"; case "$line" in *rc=0*) ;; C*rc=*) fail=1;; esac; done < <(./tools/runall.sh)
[ $fail = 0 ] && echo "ALL CLEAN" || echo "SOME CHECK IS NOT CLEAN"
exit $fail
