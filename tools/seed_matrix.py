#!/usr/bin/env python3
"""Runs every claimed quick check against every seeded change, each in a scratch worktree of /repo under /tmp
(GOVC_REPO / GOVC_OUT redirect the engine; /repo itself is not touched). Writes /verif/seeded/matrix.json.
usage: seed_matrix.py [ids...]"""
import json, os, subprocess, sys, shutil, glob, concurrent.futures as cf, threading

ENV = dict(os.environ, GOFLAGS="-mod=mod", GOPROXY="off", GOSUMDB="off", GOTOOLCHAIN="local")
manifest = json.load(open("/verif/MANIFEST.json"))
props = [c["property_id"] for c in manifest["checks"]]
ids = sorted(d for d in os.listdir("/verif/seeded") if os.path.isfile(f"/verif/seeded/{d}/patch.diff"))
if len(sys.argv) > 1:
    ids = [i for i in ids if i in sys.argv[1:]]
NW = int(os.environ.get('MATRIX_WORKERS', '3'))
lock = threading.Lock()
free = list(range(NW))

def sh(cmd, **kw):
    return subprocess.run(cmd, shell=True, capture_output=True, text=True, env=ENV, **kw)

BIN = "/verif/bin/govc.matrix"

def setup():
    shutil.copy("/verif/bin/govc", BIN)  # a private copy: the engine may be rebuilt while the matrix runs
    for w in range(NW):
        wt = f"/tmp/mwt{w}"
        sh(f"git -C /repo worktree remove --force {wt}; rm -rf {wt}; git -C /repo worktree add -q --detach {wt} HEAD")

def teardown():
    for w in range(NW):
        sh(f"git -C /repo worktree remove --force /tmp/mwt{w}; rm -rf /tmp/mwt{w} /tmp/mout{w}")

def run(mid):
    with lock:
        w = free.pop()
    try:
        wt, out = f"/tmp/mwt{w}", f"/tmp/mout{w}"
        sh(f"cd {wt} && git checkout -q -- . && git clean -fdq")
        r = sh(f"cd {wt} && git apply /verif/seeded/{mid}/patch.diff")
        res = {"id": mid, "applies": r.returncode == 0, "checks": {}}
        if r.returncode != 0:
            res["apply_error"] = r.stderr.strip()[:300]
            return res
        for p in props:
            env = dict(ENV, GOVC_REPO=wt, GOVC_OUT=out)
            c = subprocess.run([BIN, "check", "-prop", p, "-no-evidence"], capture_output=True, text=True, env=env)
            viol = [ln.split("obligation=")[1].split(" status=")[0] for ln in c.stdout.splitlines() if ln.startswith("VIOLATION") and "obligation=" in ln]
            conf = [("no-failing-input-found" not in ln) for ln in c.stdout.splitlines() if ln.startswith("VIOLATION")]
            stats = [ln.split(" status=")[1].split(" ")[0] for ln in c.stdout.splitlines() if ln.startswith("VIOLATION") and " status=" in ln]
            res["checks"][p] = {"rc": c.returncode, "violations": viol[:4], "replayed": any(conf), "statuses": sorted(set(stats)),
                                "timeout_only": bool(stats) and all("timeout" in s for s in stats)}
            if c.returncode == 2:
                res["checks"][p]["engine"] = (c.stderr.strip().splitlines() or [""])[-1][:300]
        return res
    finally:
        with lock:
            free.append(w)

setup()
results = []
with cf.ThreadPoolExecutor(NW) as ex:
    for r in ex.map(run, ids):
        caught = [p + ("(timeout)" if v.get("timeout_only") else "") for p, v in r.get("checks", {}).items() if v["rc"] == 1]
        print(r["id"], "applies" if r["applies"] else "DOES-NOT-APPLY", "caught by", caught, flush=True)
        results.append(r)
teardown()
old = {}
if os.path.exists("/verif/seeded/matrix.json") and len(sys.argv) > 1:
    old = {r["id"]: r for r in json.load(open("/verif/seeded/matrix.json"))}
for r in results:
    old[r["id"]] = r
json.dump([old[k] for k in sorted(old)], open("/verif/seeded/matrix.json", "w"), indent=1)
