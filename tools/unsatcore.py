#!/usr/bin/env python3
"""Greedy minimisation of the assertions that make an SMT script unsat (debugging aid for vacuous covers)."""
import sys,subprocess
src=open(sys.argv[1]).read().split('\n')
asserts=[i for i,l in enumerate(src) if l.startswith('(assert')]
def run(drop):
    lines=[l for i,l in enumerate(src) if i not in drop]
    open('/tmp/bis.smt2','w').write('\n'.join(lines))
    return subprocess.run(['z3-new','-T:10','/tmp/bis.smt2'],capture_output=True,text=True).stdout.split('\n')[0]
print(len(asserts),'asserts; full:',run(set()))
drop=set(); needed=[]
for i in reversed(asserts):
    if run(drop|{i})=='unsat': drop.add(i)
    else: needed.append(i)
for i in needed[:15]:
    print(i, src[i][:int(sys.argv[2]) if len(sys.argv)>2 else 400])
