#!/usr/bin/env python3
"""experiment helper: add `C05` to the prop line and `nopanic C05` to the named contract (in place, uncommitted)"""
import sys,re,glob
name=sys.argv[1]
files=glob.glob('/repo/module/x/*/zz_contracts_verif.go')+glob.glob('/repo/module/x/*/*/zz_contracts_verif.go')
for p in files:
    s=open(p).read()
    m=re.search(r'^//@ func '+re.escape(name)+r'\n//@ prop ([^\n]*)\n',s,re.M)
    if not m: continue
    props=m.group(1).split()
    if 'C05' not in props: props.append('C05')
    new='//@ func %s\n//@ prop %s\n'%(name,' '.join(props))
    rest=s[m.end():]
    if not rest.startswith('//@ nopanic'):
        new+='//@ nopanic C05\n'
    s=s[:m.start()]+new+rest
    open(p,'w').write(s); print('patched',p); break
else:
    print('not found'); sys.exit(1)
