#!/usr/bin/env python3
"""Must-fail corpus: every seeded change must be caught by the check of its own property (exit 1 with a VIOLATION
line), and the unchanged tree must pass. One scratch worktree, sequential, so that solver timeouts are not an issue.
usage: selftest.py [ids...]   (exit 0 iff every listed change is caught or is listed in EXPECTED_MISSES)"""
import json, os, subprocess, sys, shutil
ENV = dict(os.environ, GOFLAGS="-mod=mod", GOPROXY="off", GOSUMDB="off", GOTOOLCHAIN="local")
EXPECTED_MISSES = {}
WT, OUT = "/tmp/selfwt", "/tmp/selfout"
def sh(cmd, cwd=None, env=ENV):
    return subprocess.run(cmd, shell=True, capture_output=True, text=True, env=env, cwd=cwd)
DIRS = {}
for base in ("/verif/seeded", "/verif/canaries"):   # canaries: the framework author's own must-fail changes
    for d in sorted(os.listdir(base)):
        if os.path.isfile(f"{base}/{d}/patch.diff"):
            DIRS[d] = f"{base}/{d}"
ids = sorted(DIRS)
if len(sys.argv) > 1:
    ids = [i for i in ids if i in sys.argv[1:]]
claimed = {c["property_id"] for c in json.load(open("/verif/MANIFEST.json"))["checks"]}
sh(f"git -C /repo worktree remove --force {WT}; git -C /repo worktree prune")
shutil.rmtree(WT, ignore_errors=True)
assert sh(f"git -C /repo worktree add -q --detach {WT} HEAD").returncode == 0
bad = 0
for mid in ids:
    meta = json.load(open(f"{DIRS[mid]}/meta.json"))
    prop = meta["property"]
    if meta.get("status_at_head", "").startswith("NOT CONFIRMED") or prop not in claimed:
        print(f"{mid}: skipped ({'not confirmed at HEAD' if prop in claimed else 'property not claimed'})")
        continue
    sh("git checkout -q -- . && git clean -fdq", cwd=WT)
    if sh(f"git apply {DIRS[mid]}/patch.diff", cwd=WT).returncode != 0:
        print(f"{mid}: PATCH DOES NOT APPLY"); bad += 1; continue
    c = sh(f"/verif/bin/govc check -prop {prop} -no-evidence", env=dict(ENV, GOVC_REPO=WT, GOVC_OUT=OUT))
    viol = [ln.split("obligation=")[1].split(" status=")[0] for ln in c.stdout.splitlines() if ln.startswith("VIOLATION")]
    if c.returncode == 1 and viol:
        print(f"{mid}: caught by {prop}: {viol[0]}")
    elif mid in EXPECTED_MISSES:
        print(f"{mid}: missed as expected ({EXPECTED_MISSES[mid]})")
    else:
        print(f"{mid}: NOT CAUGHT by {prop} (rc={c.returncode})"); bad += 1
sh(f"git -C /repo worktree remove --force {WT}")
shutil.rmtree(OUT, ignore_errors=True)
print("selftest:", "OK" if bad == 0 else f"{bad} PROBLEMS")
sys.exit(1 if bad else 0)
