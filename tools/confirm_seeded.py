#!/usr/bin/env python3
"""Re-confirms every seeded change at the current /repo HEAD in a scratch worktree (/tmp/seedwt): the patch applies,
the demonstration passes without it and fails with it, the module builds and its test suite is green with it.
Writes the result into each /verif/seeded/<id>/meta.json (confirmed_at_head) and /verif/seeded/confirm.jsonl."""
import json, os, subprocess, shutil, sys
ENV = dict(os.environ, GOFLAGS="-mod=mod", GOPROXY="off", GOSUMDB="off", GOTOOLCHAIN="local")
WT = "/tmp/seedwt"
def sh(cmd, cwd=None):
    return subprocess.run(cmd, shell=True, capture_output=True, text=True, env=ENV, cwd=cwd)
sh(f"git -C /repo worktree remove --force {WT}; git -C /repo worktree prune")
shutil.rmtree(WT, ignore_errors=True)
assert sh(f"git -C /repo worktree add -q --detach {WT} HEAD").returncode == 0
head = sh("git -C /repo rev-parse --short HEAD").stdout.strip()
ids = sorted(d for d in os.listdir("/verif/seeded") if os.path.isfile(f"/verif/seeded/{d}/patch.diff"))
if len(sys.argv) > 1:
    ids = [i for i in ids if i in sys.argv[1:]]
out = []
for mid in ids:
    meta = json.load(open(f"/verif/seeded/{mid}/meta.json"))
    pkg = (meta.get("demo_pkg_dir") or "").strip("/")
    sh("git checkout -q -- . && git clean -fdq", cwd=WT)
    mod, rel, mf = "module", "./" + pkg[len("module/"):], ""
    if pkg.startswith("minter-connector/"):
        mod, rel = "minter-connector", "./" + pkg[len("minter-connector/"):]
        os.makedirs("/tmp/seedmf", exist_ok=True)
        gm = open(f"{WT}/minter-connector/go.mod").read().replace("=> ../../mhub2/module", f"=> {WT}/module")
        open("/tmp/seedmf/go.mod", "w").write(gm)
        shutil.copy(f"{WT}/minter-connector/go.sum", "/tmp/seedmf/go.sum")
        mf = "-modfile=/tmp/seedmf/go.mod"
    shutil.copy(f"/verif/seeded/{mid}/demo_test.go", f"{WT}/{pkg}/zz_seed_demo_test.go")
    run = f"go test {mf} -vet=off -count=1 -timeout 300s -run 'ZZMut|TestMut|Mut|TestDemoC|TestC06Batch' {rel}"
    wo = "pass" if sh(run, cwd=f"{WT}/{mod}").returncode == 0 else "fail"
    ap = sh(f"git apply /verif/seeded/{mid}/patch.diff", cwd=WT).returncode == 0
    w = su = "skip"
    if ap:
        w = "pass" if sh(run, cwd=f"{WT}/{mod}").returncode == 0 else "fail"
        os.remove(f"{WT}/{pkg}/zz_seed_demo_test.go")
        ok = sh("go build ./... && go test -vet=off -count=1 -timeout 600s ./x/...", cwd=f"{WT}/module").returncode == 0
        if mod == "minter-connector":
            # the connector's own TestCommand fails on the unchanged tree (not part of the pinned suite): build only
            ok = ok and sh(f"go build {mf} ./...", cwd=f"{WT}/minter-connector").returncode == 0
        su = "green" if ok else "red"
    r = {"id": mid, "head": head, "applies": ap, "suite": su, "demo_with_patch": w, "demo_without_patch": wo}
    print(r, flush=True)
    out.append(r)
    meta["confirmed_at_head"] = r
    json.dump(meta, open(f"/verif/seeded/{mid}/meta.json", "w"), indent=1)
sh(f"git -C /repo worktree remove --force {WT}")
shutil.rmtree("/tmp/seedmf", ignore_errors=True)
with open("/verif/seeded/confirm.jsonl", "w") as f:
    for r in out:
        f.write(json.dumps(r) + "\n")
