#!/usr/bin/env python3
"""Generates the C15 replay templates (one per key family and direction) into /verif/replay/templates."""
import os
MHUB2 = {
 "Pool": (0x07, 'k.setUnbatchedSendToExternal(ctx, "ethereum", &types.SendToExternal{Id: 7, Sender: "hub1qyqszqgpqyqszqgpqyqszqgpqyqszqgpq5g7vn", ExternalRecipient: "0x0000000000000000000000000000000000000001", ChainId: "ethereum", Token: types.ExternalToken{TokenId: 1, ExternalTokenId: tok, Amount: sdk.NewInt(100)}, Fee: types.ExternalToken{TokenId: 1, ExternalTokenId: tok, Amount: sdk.NewInt(2)}, ValCommission: types.ExternalToken{TokenId: 1, ExternalTokenId: tok, Amount: sdk.NewInt(1)}, TxHash: "0xaa"})'),
 "OutTx": (0x06, 'k.SetOutgoingTx(ctx, "ethereum", &types.BatchTx{BatchNonce: 3, Timeout: 1000, ExternalTokenId: tok, Height: 5, Sequence: 9, Transactions: []*types.SendToExternal{{Id: 7, Sender: "hub1qyqszqgpqyqszqgpqyqszqgpqyqszqgpq5g7vn", ExternalRecipient: "0x0000000000000000000000000000000000000001", ChainId: "ethereum", Token: types.ExternalToken{TokenId: 1, ExternalTokenId: tok, Amount: sdk.NewInt(100)}, Fee: types.ExternalToken{TokenId: 1, ExternalTokenId: tok, Amount: sdk.NewInt(2)}, ValCommission: types.ExternalToken{TokenId: 1, ExternalTokenId: tok, Amount: sdk.NewInt(1)}}}})'),
 "Sig": (0x04, 'k.SetExternalSignature(ctx, "ethereum", &types.BatchTxConfirmation{ExternalTokenId: tok, BatchNonce: 3, ExternalSigner: "0x0000000000000000000000000000000000000002", Signature: []byte{1, 2, 3}}, sdk.ValAddress([]byte("validator-address-01")))'),
 "Vote": (0x05, 'ev := &types.SendToHubEvent{EventNonce: 4, ExternalCoinId: tok, Amount: sdk.NewInt(5), Sender: "0x0000000000000000000000000000000000000003", CosmosReceiver: sdk.AccAddress([]byte("receiver-address-001")).String(), ExternalHeight: 11, TxHash: "0xbb"}\n\tany, err := types.PackEvent(ev)\n\tif err != nil {\n\t\tt.Fatal(err)\n\t}\n\tk.setExternalEventVoteRecord(ctx, "ethereum", 4, ev.Hash(), &types.ExternalEventVoteRecord{Event: any, Votes: []string{sdk.ValAddress([]byte("validator-address-01")).String()}})'),
 "LatestSSNonce": (0x0a, 'k.SetLatestSignerSetTxNonce(ctx, "ethereum", 42)'),
 "LastSlashedOutTxBlock": (0x0b, 'k.SetLastSlashedOutgoingTxBlockHeight(ctx, "ethereum", 77)'),
 "LastSteID": (0x0f, 'k.incrementLastSendToExternalIDKey(ctx, "ethereum")\n\tk.incrementLastSendToExternalIDKey(ctx, "ethereum")'),
 "LastUnbonding": (0x12, 'k.setLastUnbondingBlockHeight(ctx, 99)'),
 "TxStatusF": (0x14, 'k.SetTxStatus(ctx, "0xcc", types.TX_STATUS_BATCH_CREATED, "")'),
 "TxFeeRecordF": (0x15, 'k.SetTxFeeRecord(ctx, "0xcc", types.TxFeeRecord{ValCommission: sdk.NewInt(1), ExternalFee: sdk.NewInt(2)})'),
}
TMPL = '''//replay-pkg: module/x/mhub2/keeper
package keeper

import (
	"bytes"
	"testing"

	"github.com/MinterTeam/mhub2/module/x/mhub2/types"
	sdk "github.com/cosmos/cosmos-sdk/types"
)

var _ = types.ModuleName
var _ = sdk.NewInt

func govcDump(ctx sdk.Context, k Keeper, prefix byte) [][2][]byte {
	var out [][2][]byte
	it := ctx.KVStore(k.storeKey).Iterator([]byte{prefix}, []byte{prefix + 1})
	defer it.Close()
	for ; it.Valid(); it.Next() {
		out = append(out, [2][]byte{append([]byte(nil), it.Key()...), append([]byte(nil), it.Value()...)})
	}
	return out
}

// Export the module state holding %(fam)s entries (key prefix 0x%(prefix)02x), initialise a fresh instance from the
// export and compare the entries under that prefix.
func TestGovcReplay(t *testing.T) {
	const tok = "0xA091Bb826756eA25114c512B916754b3fBCb4f63"
	in := CreateTestEnv(t)
	ctx, k := in.Context, in.Mhub2Keeper
	%(populate)s
	before := govcDump(ctx, k, 0x%(prefix)02x)
	if len(before) == 0 {
		t.Fatalf("setup wrote nothing under prefix 0x%(prefix)02x")
	}
	gs := ExportGenesis(ctx, k)
	in2 := CreateTestEnv(t)
	InitGenesis(in2.Context, in2.Mhub2Keeper, gs)
	after := govcDump(in2.Context, in2.Mhub2Keeper, 0x%(prefix)02x)
	same := len(before) == len(after)
	for i := 0; same && i < len(before); i++ {
		same = bytes.Equal(before[i][0], after[i][0]) && bytes.Equal(before[i][1], after[i][1])
	}
	if !same {
		t.Fatalf("REPLAY-CONFIRMED: %(fam)s entries are not preserved by ExportGenesis + InitGenesis: %%d entries before (first key %%x), %%d after", len(before), before[0][0], len(after))
	}
}
'''
os.makedirs("/verif/replay/templates", exist_ok=True)
for fam, (prefix, pop) in MHUB2.items():
    body = TMPL % {"fam": fam, "prefix": prefix, "populate": pop}
    for fn in ("ExportGenesis", "InitGenesis"):
        open(f"/verif/replay/templates/keeper.{fn}__{fam}.go.tmpl", "w").write(body)
print("generated", 2 * len(MHUB2))
