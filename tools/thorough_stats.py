#!/usr/bin/env python3
"""agreement statistics of the last thorough run (evidence_thorough/): how many SMT obligations were decided by 3, 2, 1 back ends"""
import json,glob,collections
c=collections.Counter(); n=0
for f in sorted(glob.glob('/verif/evidence_thorough/*.json')):
    e=json.load(open(f))
    if e.get('tier')!='thorough': print('WARNING not thorough:',f)
    for o in e['coverage'].get('obligation_list',[]):
        s=o.get('solver','')
        if o.get('status')!='discharged' or s in ('syntactic','') or s.startswith('group'): continue
        c[len(s.split('+'))]+=1; n+=1
print(n, dict(c))
