package main

// Abstract KV store: key families, classification of byte keys, value codecs, iterators.

import (
	"fmt"
	"go/types"
	"sort"
	"strings"
)

type Family struct {
	Name   string
	Store  string   // ghost variable holding the (Array Key OptS)
	Prefix byte
	Segs   []string // kinds after the prefix byte: "str","u64","fill32"
	Codec  string   // "u64" | "bytes" | "msg:<short type name>" | "any"
	Module string   // "mhub2" | "oracle"
	GoName string   // the constant / variable of types/key.go that holds the prefix byte
}

var families = []*Family{
	{Name: "ValExt", GoName: "ValidatorExternalAddressKey", Prefix: 0x01, Segs: []string{"str", "str"}, Codec: "bytes"},
	{Name: "OrchVal", GoName: "OrchestratorValidatorAddressKey", Prefix: 0x02, Segs: []string{"str", "str"}, Codec: "bytes"},
	{Name: "ExtOrch", GoName: "ExternalOrchestratorAddressKey", Prefix: 0x03, Segs: []string{"str", "str"}, Codec: "bytes"},
	{Name: "Sig", GoName: "ExternalSignatureKey", Prefix: 0x04, Segs: []string{"str", "str", "str"}, Codec: "bytes"},
	{Name: "Vote", GoName: "ExternalEventVoteRecordKey", Prefix: 0x05, Segs: []string{"str", "u64", "str"}, Codec: "msg:ExternalEventVoteRecord"},
	{Name: "OutTx", GoName: "OutgoingTxKey", Prefix: 0x06, Segs: []string{"str", "str"}, Codec: "any"},
	{Name: "Pool", GoName: "SendToExternalKey", Prefix: 0x07, Segs: []string{"str", "str", "fill32", "u64"}, Codec: "msg:SendToExternal"},
	{Name: "LastNonceByVal", GoName: "LastEventNonceByValidatorKey", Prefix: 0x08, Segs: []string{"str", "str"}, Codec: "u64"},
	{Name: "LastObservedNonce", GoName: "LastObservedEventNonceKey", Prefix: 0x09, Segs: []string{"str"}, Codec: "u64"},
	{Name: "LatestSSNonce", GoName: "LatestSignerSetTxNonceKey", Prefix: 0x0a, Segs: []string{"str"}, Codec: "u64"},
	{Name: "LastSlashedOutTxBlock", GoName: "LastSlashedOutgoingTxBlockKey", Prefix: 0x0b, Segs: []string{"str"}, Codec: "u64"},
	{Name: "LastBatchNonce", GoName: "LastOutgoingBatchNonceKey", Prefix: 0x0d, Segs: []string{"str"}, Codec: "u64"},
	{Name: "OutSeq", GoName: "OutgoingSequence", Prefix: 0x0e, Segs: []string{"str"}, Codec: "u64"},
	{Name: "LastSteID", GoName: "LastSendToExternalIDKey", Prefix: 0x0f, Segs: []string{"str"}, Codec: "u64"},
	{Name: "LastExtHeight", GoName: "LastExternalBlockHeightKey", Prefix: 0x10, Segs: []string{"str"}, Codec: "msg:LatestBlockHeight"},
	{Name: "TokenInfosF", GoName: "TokenInfosKey", Prefix: 0x11, Segs: []string{}, Codec: "msg:TokenInfos"},
	{Name: "LastUnbonding", GoName: "LastUnBondingBlockHeightKey", Prefix: 0x12, Segs: []string{}, Codec: "u64"},
	{Name: "LastObservedSS", GoName: "LastObservedSignerSetKey", Prefix: 0x13, Segs: []string{"str"}, Codec: "msg:SignerSetTx"},
	{Name: "TxStatusF", GoName: "TxStatusKey", Prefix: 0x14, Segs: []string{"str"}, Codec: "msg:TxStatus"},
	{Name: "TxFeeRecordF", GoName: "TxFeeRecordKey", Prefix: 0x15, Segs: []string{"str"}, Codec: "msg:TxFeeRecord"},
	// oracle module (its own store)
	{Name: "OClaim", GoName: "OracleClaimKey", Store: "OStore", Module: "oracle", Prefix: 0x01, Segs: []string{"str", "str", "u64", "str"}, Codec: "msg:GenericClaim"},
	{Name: "OAtt", GoName: "OracleAttestationKey", Store: "OStore", Module: "oracle", Prefix: 0x02, Segs: []string{"u64", "str"}, Codec: "msg:Attestation"},
	{Name: "OEpoch", GoName: "CurrentEpochKey", Store: "OStore", Module: "oracle", Prefix: 0x03, Segs: []string{}, Codec: "u64"},
	{Name: "OPrices", GoName: "CurrentPricesKey", Store: "OStore", Module: "oracle", Prefix: 0x04, Segs: []string{}, Codec: "msg:Prices"},
	{Name: "OHolders", GoName: "CurrentHoldersKey", Store: "OStore", Module: "oracle", Prefix: 0x05, Segs: []string{}, Codec: "msg:Holders"},
}

var familyByName = map[string]*Family{}
var familyByPrefix = map[string]map[byte]*Family{}

func init() {
	for _, f := range families {
		if f.Module == "" {
			f.Module = "mhub2"
		}
		if f.Store == "" {
			f.Store = "Store"
		}
		familyByName[f.Name] = f
		if familyByPrefix[f.Store] == nil {
			familyByPrefix[f.Store] = map[byte]*Family{}
		}
		familyByPrefix[f.Store][f.Prefix] = f
	}
}

func segSort(kind string) string {
	if kind == "str" {
		return SString
	}
	return SInt
}

// keyDatatype: the SMT datatype Key with one constructor per family plus K_raw.
func keyDatatype() string {
	var sb strings.Builder
	sb.WriteString("(declare-datatypes ((OptS 0)) (((none) (some (someval String)))))\n")
	sb.WriteString("(declare-datatypes ((Key 0)) (((K_raw (K_raw_0 String))")
	fs := append([]*Family(nil), families...)
	sort.Slice(fs, func(i, j int) bool { return fs[i].Name < fs[j].Name })
	for _, f := range fs {
		fmt.Fprintf(&sb, " (K_%s", f.Name)
		for i, s := range f.Segs {
			fmt.Fprintf(&sb, " (K_%s_%d %s)", f.Name, i, segSort(s))
		}
		sb.WriteString(")")
	}
	sb.WriteString(")))\n")
	return sb.String()
}

func (f *Family) keyTerm(args []T, fail func(string, ...interface{})) T {
	if len(args) != len(f.Segs) {
		fail("family %s takes %d index arguments, got %d", f.Name, len(f.Segs), len(args))
	}
	for i, a := range args {
		if a.So != segSort(f.Segs[i]) {
			fail("family %s index %d has sort %s, want %s", f.Name, i, a.So, segSort(f.Segs[i]))
		}
	}
	if len(args) == 0 {
		return T{S: "K_" + f.Name, So: "Key"}
	}
	return app("Key", "K_"+f.Name, args...)
}

// splitConstPrefix: peel the first byte off a key's segment list.
func splitConstPrefix(segs []Seg) (byte, []Seg, bool) {
	if len(segs) == 0 || segs[0].Kind != "const" || len(segs[0].Lit) == 0 {
		return 0, nil, false
	}
	first := segs[0]
	rest := segs[1:]
	if len(first.Lit) > 1 {
		l := first.Lit[1:]
		rest = append([]Seg{{Kind: "const", Lit: l, S: smtStrLit(l)}}, rest...)
	}
	return first.Lit[0], rest, true
}

// classifyKey maps a byte-string term to (family, index terms). complete=false when only a prefix of the
// family's segments is present (prefix stores).
func (x *Exec) classifyKey(storeName string, key T, allowPrefix bool) (*Family, []T, bool) {
	if key.Segs == nil {
		x.fail("store key %s has no segment structure (cannot classify)", key.S)
	}
	pb, rest, ok := splitConstPrefix(key.Segs)
	if !ok {
		x.fail("store key does not start with a constant family byte: %s", key.S)
	}
	fam := familyByPrefix[storeName][pb]
	if fam == nil {
		x.fail("no key family with prefix byte 0x%02x in store %s", pb, storeName)
	}
	if len(rest) > len(fam.Segs) || (!allowPrefix && len(rest) != len(fam.Segs)) {
		x.fail("key shape mismatch for family %s: got %d segments %v, want %v", fam.Name, len(rest), segKinds(rest), fam.Segs)
	}
	var args []T
	for i, s := range rest {
		want := fam.Segs[i]
		switch want {
		case "str":
			if s.Kind == "u64" || s.Kind == "fill32" {
				x.fail("key shape mismatch for family %s at segment %d: got %s, want str", fam.Name, i, s.Kind)
			}
			args = append(args, T{S: s.S, So: SString})
		case "u64", "fill32":
			if s.Kind != want {
				x.fail("key shape mismatch for family %s at segment %d: got %s, want %s", fam.Name, i, s.Kind, want)
			}
			args = append(args, T{S: s.Arg, So: SInt})
		}
	}
	return fam, args, len(rest) == len(fam.Segs)
}

func segKinds(ss []Seg) []string {
	var r []string
	for _, s := range ss {
		r = append(r, s.Kind)
	}
	return r
}

// ---------------------------------------------------------------------------
// Codecs.

func (e *Engine) msgTypeByName(name string) types.Type {
	for _, p := range e.prog.AllPackages() {
		if p.Pkg == nil || !strings.Contains(p.Pkg.Path(), "MinterTeam/mhub2/module/x/") || !strings.HasSuffix(p.Pkg.Path(), "/types") {
			continue
		}
		if m := p.Type(name); m != nil {
			return m.Type()
		}
	}
	panic(execError{"unknown message type " + name})
}

func (e *Engine) tryMsgType(name string) (t types.Type) {
	defer func() {
		if r := recover(); r != nil {
			t = nil
		}
	}()
	return e.msgTypeByName(name)
}

func (e *Engine) marshalFn(t types.Type) (mar, unm string) {
	so := e.sortOf(t)
	mar = "mar_" + mangle(so)
	unm = "unm_" + mangle(so)
	if !e.declSet[mar] {
		e.declareFun(mar, "("+so+") String")
		e.declareFun(unm, "(String) "+so)
		e.addAxiom(fmt.Sprintf("(assert (forall ((v %s)) (! (= (%s (%s v)) v) :pattern ((%s v)))))", so, unm, mar, mar))
		e.note("codec round trip: Unmarshal(Marshal(v)) = v for every message type (protobuf codec is not verified)")
	}
	return
}

func (x *Exec) decodeValue(st *State, fam *Family, raw T) cv {
	switch {
	case fam.Codec == "u64":
		return cv{V: app(SInt, "u64dec", raw)}
	case fam.Codec == "bytes":
		return cv{V: raw}
	case fam.Codec == "any":
		_, unm := x.e.marshalDyn()
		return cv{V: app("Dyn", unm, raw)}
	case strings.HasPrefix(fam.Codec, "msg:"):
		t := x.e.msgTypeByName(fam.Codec[4:])
		_, unm := x.e.marshalFn(t)
		return cv{V: app(x.e.sortOf(t), unm, raw), T: t}
	}
	panic(execError{"bad codec " + fam.Codec})
}

func (x *Exec) encodeValue(st *State, fam *Family, v cv) T {
	switch {
	case fam.Codec == "u64":
		return app(SString, "u64be", v.V.(T))
	case fam.Codec == "bytes":
		return v.V.(T)
	case fam.Codec == "any":
		mar, _ := x.e.marshalDyn()
		var d T
		switch vv := v.V.(type) {
		case T:
			d = vv
		case *IfaceV:
			d = x.e.ifaceDyn(st, vv)
		default:
			panic(execError{"enc(any) needs a Dyn term"})
		}
		return app(SString, mar, d)
	case strings.HasPrefix(fam.Codec, "msg:"):
		t := x.e.msgTypeByName(fam.Codec[4:])
		mar, _ := x.e.marshalFn(t)
		var term T
		if tv, ok := v.V.(T); ok {
			term = tv
		} else if pv, ok := v.V.(*PtrV); ok {
			term = x.e.reify(st, x.e.load(st, pv), t)
		} else {
			term = x.e.reify(st, v.V, t)
		}
		return app(SString, mar, term)
	}
	panic(execError{"bad codec " + fam.Codec})
}

func (e *Engine) marshalDyn() (string, string) {
	if !e.declSet["mar_Dyn"] {
		e.declareFun("mar_Dyn", "(Dyn) String")
		e.declareFun("unm_Dyn", "(String) Dyn")
		e.addAxiom(`(assert (forall ((v Dyn)) (! (and (= (unm_Dyn (mar_Dyn v)) v) (> (str.len (mar_Dyn v)) 0)) :pattern ((mar_Dyn v)))))`)
		e.note("codec round trip for Any-packed interface values; a packed value never marshals to the empty string")
	}
	return "mar_Dyn", "unm_Dyn"
}

// ---------------------------------------------------------------------------
// Store operations on a world's ghost store.

type storeHandle struct {
	World  int
	Name   string // ghost store name
	Prefix *T     // for prefix stores
}

func (x *Exec) storeOf(v Val) *storeHandle {
	o, ok := v.(*OpaqueV)
	if !ok || o.Tag != "kvstore" {
		x.fail("not a KV store: %T", v)
	}
	h := &storeHandle{World: int(mustLit(o.Data["world"].(T))), Name: string(o.Data["name"].(T).S)}
	if p, ok := o.Data["prefix"]; ok {
		pt := p.(T)
		h.Prefix = &pt
	}
	return h
}

func mustLit(t T) int64 {
	n, ok := isLit(t)
	if !ok {
		panic(execError{"expected literal: " + t.S})
	}
	return n
}

func (x *Exec) fullKey(h *storeHandle, key T) T {
	if h.Prefix != nil {
		return Concat(*h.Prefix, key)
	}
	return key
}

func (x *Exec) storeGet(st *State, h *storeHandle, key T) T {
	fam, args, _ := x.classifyKey(h.Name, x.fullKey(h, key), false)
	x.recordFam(fam, false)
	k := fam.keyTerm(args, x.fail)
	s := st.Worlds[h.World][h.Name]
	opt := T{S: fmt.Sprintf("(select %s %s)", s.S, k.S), So: "OptS"}
	isSome := T{S: fmt.Sprintf("((_ is some) %s)", opt.S), So: SBool}
	r := app(SString, "getraw", opt)
	r.Nil = Not(isSome).S
	return r
}

func (x *Exec) storeHas(st *State, h *storeHandle, key T) T {
	fam, args, _ := x.classifyKey(h.Name, x.fullKey(h, key), false)
	x.recordFam(fam, false)
	k := fam.keyTerm(args, x.fail)
	s := st.Worlds[h.World][h.Name]
	return T{S: fmt.Sprintf("((_ is some) (select %s %s))", s.S, k.S), So: SBool}
}

func (x *Exec) storeSet(st *State, h *storeHandle, key T, val T) {
	fam, args, _ := x.classifyKey(h.Name, x.fullKey(h, key), false)
	x.recordFam(fam, true)
	k := fam.keyTerm(args, x.fail)
	if fam.Codec == "u64" && x.nopanic && x.root != nil && len(x.root.NoPanicOnly) == 0 {
		// readers of a counter family decode 8 bytes (binary.BigEndian.Uint64 panics on less): every write of a
		// function under a no-panic contract keeps the width, so the readers' precondition is an invariant
		x.emit(st, "nopanic", x.oblName("counter-width@"+fam.Name), "", Eq(StrLen(val), IntLit(8)))
	}
	s := st.Worlds[h.World][h.Name]
	st.Worlds[h.World][h.Name] = T{S: fmt.Sprintf("(store %s %s (some %s))", s.S, k.S, val.S), So: s.So}
	if st.GWrit != nil {
		st.GWrit[h.Name] = true
	}
}

func (x *Exec) storeDelete(st *State, h *storeHandle, key T) {
	fam, args, _ := x.classifyKey(h.Name, x.fullKey(h, key), false)
	x.recordFam(fam, true)
	k := fam.keyTerm(args, x.fail)
	s := st.Worlds[h.World][h.Name]
	st.Worlds[h.World][h.Name] = T{S: fmt.Sprintf("(store %s %s none)", s.S, k.S), So: s.So}
	if st.GWrit != nil {
		st.GWrit[h.Name] = true
	}
}

// ---------------------------------------------------------------------------
// Iterators: an abstract sequence itkey(id, i), 0 <= i < itn(id), over the snapshot taken at creation.

func (x *Exec) newIterator(st *State, h *storeHandle, reverse bool, pos string) Val {
	x.e.nIter++
	id := x.e.nIter
	x.e.declareFun("itkey", "(Int Int) Key")
	x.e.declareFun("itidx", "(Int Key) Int")
	n := x.e.fresh(fmt.Sprintf("itn%d", id), SInt)
	snap := st.Worlds[h.World][h.Name]
	st.assume(Ge(n, IntLit(0)), "iterator length >= 0")
	x.e.note("KV iterators range over a snapshot of the store taken when the iterator is created (cachekv semantics); entries come in key order")
	idT := IntLit(int64(id))
	data := map[string]Val{"id": idT, "n": n, "snap": snap, "world": IntLit(int64(h.World)), "name": T{S: h.Name}}
	var fam *Family
	var fixed []T
	lastIsPrefix := false
	if h.Prefix != nil {
		fam, fixed, _ = x.classifyKey(h.Name, *h.Prefix, true)
		x.recordFam(fam, false)
		// a literal as the last provided segment of a string component is a byte prefix of that component
		// (e.g. the type byte of an outgoing-tx store index), not the whole component
		if n := len(fixed); n > 0 && fam.Segs[n-1] == "str" {
			segs := h.Prefix.Segs
			if segs[len(segs)-1].Kind == "const" {
				lastIsPrefix = true
			} else if n >= 2 {
				// a variable-length string component (e.g. a token id) as the last part of a byte prefix matches every
				// key whose component merely starts with it; the first component (the chain id) is treated as exact
				lastIsPrefix = true
				x.e.note("chain ids are prefix-free, so a byte prefix ending in the chain id selects exactly that chain (validateChains does not enforce this)")
			}
		}
	}
	if lastIsPrefix && fam != nil && x.root != nil && x.root.ExactPrefix[fam.Name] {
		// the contract assumes that the provided components are complete: no other key of the family has them as a
		// byte prefix of its own components
		lastIsPrefix = false
		x.e.note("ASSUMED by the contract (exact-prefix " + fam.Name + "): a byte prefix ending in a complete " + fam.Name + " component selects exactly the keys with that component (store indexes are prefix-free)")
	}
	fixedCond := func(a int, f T, k string) string {
		if lastIsPrefix && a == len(fixed)-1 {
			return fmt.Sprintf("(str.prefixof %s (K_%s_%d %s))", f.S, fam.Name, a, k)
		}
		return fmt.Sprintf("(= (K_%s_%d %s) %s)", fam.Name, a, k, f.S)
	}
	posObj := x.e.newObj(st, IntLit(0))
	if x.e.iterPosObjs == nil {
		x.e.iterPosObjs = map[int]bool{}
	}
	x.e.iterPosObjs[posObj] = true
	data["pos"] = IntLit(int64(posObj))
	it := &OpaqueV{Tag: "iter", Data: data}
	// membership / distinctness / order / completeness axioms
	kI := "(itkey " + idT.S + " i)"
	kJ := "(itkey " + idT.S + " j)"
	var member []string
	if fam != nil {
		data["fam"] = T{S: fam.Name}
		member = append(member, fmt.Sprintf("((_ is K_%s) %s)", fam.Name, kI))
		for a, f := range fixed {
			member = append(member, fixedCond(a, f, kI))
		}
		data["nfixed"] = IntLit(int64(len(fixed)))
		if lastIsPrefix {
			data["nfixed"] = IntLit(int64(len(fixed) - 1))
		}
	}
	member = append(member, fmt.Sprintf("((_ is some) (select %s %s))", snap.S, kI))
	st.assume(T{S: fmt.Sprintf("(forall ((i Int)) (! (=> (and (<= 0 i) (< i %s)) (and %s)) :pattern (%s)))", n.S, strings.Join(member, " "), kI), So: SBool}, "iterator yields present keys of its prefix")
	// strict order on the varying integer suffix (when all varying segments are integers), else distinctness
	ordered := false
	if fam != nil {
		allInt := len(fixed) < len(fam.Segs)
		for a := len(fixed); a < len(fam.Segs); a++ {
			if fam.Segs[a] == "str" {
				allInt = false
			}
		}
		sameStr := ""
		if lastIsPrefix {
			if h.Prefix.Segs[len(h.Prefix.Segs)-1].Kind == "const" {
				allInt = false
			} else {
				// order is only claimed among keys that agree on the prefix-matched component
				a := len(fixed) - 1
				sameStr = fmt.Sprintf("(= (K_%s_%d %s) (K_%s_%d %s))", fam.Name, a, kI, fam.Name, a, kJ)
			}
		}
		if allInt {
			ordered = sameStr == ""
			// lexicographic less on (seg_a ...) between key i and key j
			var lex func(a int) string
			lex = func(a int) string {
				si := fmt.Sprintf("(K_%s_%d %s)", fam.Name, a, kI)
				sj := fmt.Sprintf("(K_%s_%d %s)", fam.Name, a, kJ)
				lt := fmt.Sprintf("(< %s %s)", si, sj)
				if reverse {
					lt = fmt.Sprintf("(> %s %s)", si, sj)
				}
				if a == len(fam.Segs)-1 {
					return lt
				}
				return fmt.Sprintf("(or %s (and (= %s %s) %s))", lt, si, sj, lex(a+1))
			}
			guard := fmt.Sprintf("(and (<= 0 i) (< i j) (< j %s))", n.S)
			if sameStr != "" {
				guard = fmt.Sprintf("(and (<= 0 i) (< i j) (< j %s) %s)", n.S, sameStr)
			}
			st.assume(T{S: fmt.Sprintf("(forall ((i Int) (j Int)) (! (=> %s %s) :pattern (%s %s)))", guard, lex(len(fixed)), kI, kJ), So: SBool}, "iterator order")
			x.e.note("iteration order of integer key suffixes (fill32/u64 big-endian) equals numeric order for non-negative values (checked by L0 lemma order-iso)")
		}
	}
	if !ordered {
		st.assume(T{S: fmt.Sprintf("(forall ((i Int) (j Int)) (! (=> (and (<= 0 i) (< i j) (< j %s)) (not (= %s %s))) :pattern (%s %s)))", n.S, kI, kJ, kI, kJ), So: SBool}, "iterator keys are distinct")
	}
	// completeness
	var dom []string
	if fam != nil {
		dom = append(dom, fmt.Sprintf("((_ is K_%s) k)", fam.Name))
		for a, f := range fixed {
			dom = append(dom, fixedCond(a, f, "k"))
		}
	}
	dom = append(dom, fmt.Sprintf("((_ is some) (select %s k))", snap.S))
	st.assume(T{S: fmt.Sprintf("(forall ((k Key)) (! (=> (and %s) (and (<= 0 (itidx %s k)) (< (itidx %s k) %s) (= (itkey %s (itidx %s k)) k))) :pattern ((itidx %s k)) :pattern ((select %s k))))", strings.Join(dom, " "), idT.S, idT.S, n.S, idT.S, idT.S, idT.S, snap.S), So: SBool}, "iterator is complete")
	return it
}

func (x *Exec) iterPos(st *State, it *OpaqueV) (T, int) {
	obj := int(mustLit(it.Data["pos"].(T)))
	return st.Heap[obj].(T), obj
}

func (x *Exec) iterCurKey(st *State, it *OpaqueV) T {
	pos, _ := x.iterPos(st, it)
	return T{S: fmt.Sprintf("(itkey %s %s)", it.Data["id"].(T).S, pos.S), So: "Key"}
}

// recordFam: the key families a function reads and writes (over all explored paths, including discovery passes).
func (x *Exec) recordFam(fam *Family, write bool) {
	if fam == nil {
		return
	}
	x.famMu.Lock()
	defer x.famMu.Unlock()
	if x.famReads == nil {
		x.famReads, x.famWrites = map[string]bool{}, map[string]bool{}
	}
	if write {
		x.famWrites[fam.Name] = true
	} else {
		x.famReads[fam.Name] = true
	}
}

// keybytesAxioms: the byte layout of the keys of every family of a store (used by whole-store scans that parse
// iter.Key() themselves).
func (e *Engine) keybytesAxioms(store string) {
	for _, f := range families {
		if f.Store != store {
			continue
		}
		parts := []string{smtStrLit([]byte{f.Prefix})}
		for i, sg := range f.Segs {
			sel := fmt.Sprintf("(K_%s_%d k)", f.Name, i)
			switch sg {
			case "str":
				parts = append(parts, sel)
			case "u64":
				parts = append(parts, "(u64be "+sel+")")
			case "fill32":
				parts = append(parts, "(fill32 "+sel+")")
			}
		}
		body := parts[0]
		if len(parts) > 1 {
			body = "(str.++ " + strings.Join(parts, " ") + ")"
		}
		e.addAxiom(fmt.Sprintf("(assert (forall ((k Key)) (! (=> ((_ is K_%s) k) (= (keybytes k) %s)) :pattern ((keybytes k)))))", f.Name, body))
	}
	e.note("store keys are the concatenation of the family byte and the key components (chain ids are assumed prefix-free, so components are read back unambiguously)")
}
