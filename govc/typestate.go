package main

// C05, layer F: iterator typestate. A callback that runs while an iterator on the module store is open must not
// both write to that store and open another iterator on it: on a cache-wrapped store (every block is processed on
// one) the second iterator can block forever once more than a few dozen entries were written (cachekv dirty items
// are flushed into a MemDB whose write lock the open iterator's goroutine still holds).

import (
	"go/ast"
	goparser "go/parser"
	"go/token"
	"path/filepath"
	"go/constant"
	"go/types"
	"fmt"
	"sort"
	"strings"

	"golang.org/x/tools/go/ssa"
)

func opensIterator(prog *ssa.Program, fn *ssa.Function, seen map[*ssa.Function]bool) bool {
	if fn == nil || fn.Blocks == nil || seen[fn] {
		return false
	}
	seen[fn] = true
	for _, b := range fn.Blocks {
		for _, in := range b.Instrs {
			var cc *ssa.CallCommon
			switch c := in.(type) {
			case *ssa.Call:
				cc = c.Common()
			case *ssa.Defer:
				cc = c.Common()
			case *ssa.MakeClosure:
				if opensIterator(prog, c.Fn.(*ssa.Function), seen) {
					return true
				}
				continue
			default:
				continue
			}
			if cc.IsInvoke() {
				if (cc.Method.Name() == "Iterator" || cc.Method.Name() == "ReverseIterator") && strings.HasSuffix(typeString(cc.Value.Type()), "KVStore") {
					return true
				}
				continue
			}
			if f, ok := cc.Value.(*ssa.Function); ok {
				n := f.String()
				if strings.HasPrefix(n, "(github.com/cosmos/cosmos-sdk/store/prefix.Store).Iterator") || strings.HasPrefix(n, "(github.com/cosmos/cosmos-sdk/store/prefix.Store).ReverseIterator") {
					return true
				}
				if isRepoFn(f) && opensIterator(prog, f, seen) {
					return true
				}
			}
		}
	}
	return false
}

// callsParamInLoopWithIterator: fn opens an iterator itself and calls one of its function-typed parameters.
func iterationHelper(fn *ssa.Function) bool {
	if fn.Blocks == nil {
		return false
	}
	opens, callsParam := false, false
	for _, b := range fn.Blocks {
		for _, in := range b.Instrs {
			c, ok := in.(*ssa.Call)
			if !ok {
				continue
			}
			cc := c.Common()
			if cc.IsInvoke() {
				if cc.Method.Name() == "Iterator" || cc.Method.Name() == "ReverseIterator" {
					opens = true
				}
				continue
			}
			if f, ok := cc.Value.(*ssa.Function); ok {
				n := f.String()
				if strings.Contains(n, "prefix.Store).Iterator") || strings.Contains(n, "prefix.Store).ReverseIterator") {
					opens = true
				}
			}
			if p, ok := cc.Value.(*ssa.Parameter); ok {
				for _, fp := range fn.Params {
					if fp == p {
						callsParam = true
					}
				}
			}
		}
	}
	return opens && callsParam
}

// typestateCheck returns one report per call site of an iteration helper with a closure callback.
func typestateCheck(l *Loaded, prop string) []*OblReport {
	var reps []*OblReport
	var fns []*ssa.Function
	for _, sp := range l.spkgs {
		if sp == nil || !strings.Contains(sp.Pkg.Path(), "MinterTeam/mhub2/module/x/") {
			continue
		}
		for _, m := range sp.Members {
			if f, ok := m.(*ssa.Function); ok {
				fns = append(fns, f)
				fns = append(fns, f.AnonFuncs...)
			}
			if t, ok := m.(*ssa.Type); ok {
				ms := l.prog.MethodSets.MethodSet(t.Type())
				for i := 0; i < ms.Len(); i++ {
					if f := l.prog.MethodValue(ms.At(i)); f != nil && f.Synthetic == "" {
						fns = append(fns, f)
						fns = append(fns, f.AnonFuncs...)
					}
				}
			}
		}
	}
	seenSite := map[string]bool{}
	for _, fn := range fns {
		if fn.Blocks == nil || strings.HasSuffix(l.prog.Fset.Position(fn.Pos()).Filename, "_test.go") || strings.HasSuffix(l.prog.Fset.Position(fn.Pos()).Filename, "test_common.go") {
			continue
		}
		for _, b := range fn.Blocks {
			for _, in := range b.Instrs {
				c, ok := in.(*ssa.Call)
				if !ok {
					continue
				}
				callee, ok := c.Common().Value.(*ssa.Function)
				if !ok || !isRepoFn(callee) || !iterationHelper(callee) {
					continue
				}
				for _, a := range c.Common().Args {
					mc, ok := a.(*ssa.MakeClosure)
					if !ok {
						continue
					}
					cb := mc.Fn.(*ssa.Function)
					site := fmt.Sprintf("%s->%s", shortFuncName(fn), shortFuncName(callee))
					if seenSite[site+cb.Name()] {
						continue
					}
					seenSite[site+cb.Name()] = true
					writes := effects.of(cb)[storeNameFor(fn)]
					iterates := opensIterator(l.prog, cb, map[*ssa.Function]bool{})
					rep := &OblReport{Name: fmt.Sprintf("%s/F/iterator-typestate/%s", prop, shortFuncName(cb)), Kind: "typestate", Func: fn.String(), Solver: "syntactic", Line: l.prog.Fset.Position(c.Pos()).String()}
					if writes && iterates {
						rep.Status = fmt.Sprintf("failed: the callback %s of %s (iterator open on the module store) both writes to the store and opens another iterator on it", shortFuncName(cb), shortFuncName(callee))
					} else {
						rep.Status = "discharged"
					}
					reps = append(reps, rep)
				}
			}
		}
	}
	sort.Slice(reps, func(i, j int) bool { return reps[i].Name < reps[j].Name })
	return reps
}

// bindCheck (layer F): the interface-typed handler field of a module Keeper is only ever assigned a value of the
// expected concrete type, so that invokes through the field can be bound to that type's method.
func bindCheck(l *Loaded, prop, pkgSuffix, field, concrete string) *OblReport {
	rep := &OblReport{Name: fmt.Sprintf("%s/F/bind/%s.%s", prop, strings.TrimPrefix(pkgSuffix, "/x/"), field), Kind: "bind", Func: "Keeper." + field, Solver: "syntactic", Status: "discharged"}
	stores := 0
	for _, fn := range moduleFunctions(l) {
		for _, b := range fn.Blocks {
			for _, in := range b.Instrs {
				st, ok := in.(*ssa.Store)
				if !ok {
					continue
				}
				fa, ok := st.Addr.(*ssa.FieldAddr)
				if !ok {
					continue
				}
				pt, ok := fa.X.Type().Underlying().(*types.Pointer)
				if !ok {
					continue
				}
				nt, ok := pt.Elem().(*types.Named)
				if !ok || nt.Obj().Name() != "Keeper" || nt.Obj().Pkg() == nil || !strings.HasSuffix(nt.Obj().Pkg().Path(), pkgSuffix) {
					continue
				}
				if nt.Underlying().(*types.Struct).Field(fa.Field).Name() != field {
					continue
				}
				stores++
				mi, ok := st.Val.(*ssa.MakeInterface)
				if !ok || !strings.HasSuffix(typeString(mi.X.Type()), pkgSuffix+"."+concrete) {
					rep.Status = fmt.Sprintf("failed: %s assigns Keeper.%s a value that is not a %s (%s)", shortFuncName(fn), field, concrete, l.prog.Fset.Position(st.Pos()))
				}
			}
		}
	}
	if stores == 0 {
		rep.Status = "failed: no assignment of Keeper." + field + " found"
	}
	return rep
}

// keyTableCheck (layer F): the engine's key-family table has the prefix bytes the repository's types/key.go declares
// (constants of the mhub2 module, one-byte package variables of the oracle module).
func keyTableCheck(l *Loaded, prop string, withOracle bool) []*OblReport {
	var reps []*OblReport
	for _, f := range families {
		if f.Module == "oracle" && !withOracle {
			continue
		}
		pkgSuffix := "/x/mhub2/types"
		if f.Module == "oracle" {
			pkgSuffix = "/x/oracle/types"
		}
		rep := &OblReport{Name: fmt.Sprintf("%s/F/key-table/%s", prop, f.Name), Kind: "key-table", Func: "types." + f.GoName, Solver: "syntactic", Status: "failed: " + f.GoName + " not found in " + pkgSuffix}
		for _, sp := range l.spkgs {
			if sp == nil || !strings.HasSuffix(sp.Pkg.Path(), pkgSuffix) {
				continue
			}
			switch m := sp.Members[f.GoName].(type) {
			case *ssa.NamedConst:
				if v, ok := constant.Int64Val(m.Value.Value); ok && byte(v) == f.Prefix {
					rep.Status = "discharged"
				} else {
					rep.Status = fmt.Sprintf("failed: %s is %s in the repository, the key-family table expects 0x%02x", f.GoName, m.Value.Value.String(), f.Prefix)
				}
			case *ssa.Global:
				if lit, ok := constByteGlobal(m); ok && len(lit) == 1 && lit[0] == f.Prefix {
					rep.Status = "discharged"
				} else {
					rep.Status = fmt.Sprintf("failed: %s is not the one-byte prefix 0x%02x the key-family table expects", f.GoName, f.Prefix)
				}
			}
		}
		reps = append(reps, rep)
	}
	// the other direction: every byte constant of mhub2's types/key.go is a known family (a new family that the
	// genesis functions do not carry would otherwise go unnoticed)
	ignore := map[string]bool{"LastSlashedSignerSetTxNonceKey": true} // declared, never used as a key prefix
	for _, sp := range l.spkgs {
		if sp == nil || !strings.HasSuffix(sp.Pkg.Path(), "/x/mhub2/types") {
			continue
		}
		var names []string
		for n := range sp.Members {
			names = append(names, n)
		}
		sort.Strings(names)
		for _, n := range names {
			nc, ok := sp.Members[n].(*ssa.NamedConst)
			if !ok || ignore[n] || strings.Contains(n, "PrefixByte") || !strings.HasSuffix(l.prog.Fset.Position(nc.Pos()).Filename, "/types/key.go") {
				continue
			}
			if b, isB := nc.Type().Underlying().(*types.Basic); !isB || b.Kind() != types.Uint8 {
				continue
			}
			known := false
			for _, f := range families {
				if f.GoName == n {
					known = true
				}
			}
			if !known {
				reps = append(reps, &OblReport{Name: fmt.Sprintf("%s/F/key-table/unknown/%s", prop, n), Kind: "key-table", Func: "types." + n, Solver: "syntactic", Status: "failed: types/key.go declares the key prefix " + n + " (" + nc.Value.Value.String() + ") that the engine's key-family table does not know"})
			}
		}
	}
	return reps
}

// maccPermsCheck (layer F, syntactic over the AST of module/app/app.go): the module-account permission table grants
// the bridge module account both Minter and Burner. bank.BurnCoins / MintCoins panic without the permission; with it
// BurnCoins can only fail for insufficient funds, which is what the bank model assumes.
func maccPermsCheck(prop string) *OblReport {
	rep := &OblReport{Name: prop + "/F/module-account-permissions", Kind: "config", Func: "app.maccPerms", Solver: "syntactic"}
	file := filepath.Join(repoRoot, "module", "app", "app.go")
	fset := token.NewFileSet()
	f, err := goparser.ParseFile(fset, file, nil, 0)
	if err != nil {
		rep.Status = "failed: cannot parse module/app/app.go: " + err.Error()
		return rep
	}
	rep.Status = "failed: maccPerms has no entry for mhub2types.ModuleName"
	ast.Inspect(f, func(n ast.Node) bool {
		vs, ok := n.(*ast.ValueSpec)
		if !ok || len(vs.Names) != 1 || vs.Names[0].Name != "maccPerms" || len(vs.Values) != 1 {
			return true
		}
		cl, ok := vs.Values[0].(*ast.CompositeLit)
		if !ok {
			return true
		}
		for _, el := range cl.Elts {
			kv, ok := el.(*ast.KeyValueExpr)
			if !ok {
				continue
			}
			key, ok := kv.Key.(*ast.SelectorExpr)
			if !ok || key.Sel.Name != "ModuleName" {
				continue
			}
			if id, ok := key.X.(*ast.Ident); !ok || id.Name != "mhub2types" {
				continue
			}
			have := map[string]bool{}
			if vl, ok := kv.Value.(*ast.CompositeLit); ok {
				for _, pe := range vl.Elts {
					if se, ok := pe.(*ast.SelectorExpr); ok {
						have[se.Sel.Name] = true
					}
				}
			}
			if have["Minter"] && have["Burner"] {
				rep.Status = "discharged"
			} else {
				rep.Status = "failed: maccPerms[mhub2types.ModuleName] lacks Minter or Burner: bank.MintCoins / BurnCoins panic without them"
			}
		}
		return false
	})
	return rep
}
