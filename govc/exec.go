package main

// Symbolic execution of go/ssa function bodies (path enumeration, loops cut at invariants).

import (
	"time"
	"runtime"
	"sync"
	"os"
	"fmt"
	"go/constant"
	"go/token"
	"go/types"
	"math/big"
	"sort"
	"strings"

	"golang.org/x/tools/go/ssa"
)

type ErrV struct{ IsNil T }

type Frame struct {
	fn      *ssa.Function
	env     map[ssa.Value]Val
	loops   map[int]*loopRun // header block index -> active loop
	defers  []func(*State)
	spec    *FuncSpec
	args    []Val
	loopSet map[int]map[int]bool
}

type loopRun struct {
	spec     *LoopSpec
	discover bool
	blocks   map[int]bool
	ordinal  int
	preGhost map[string]T
	entry    *State
	header   int
}

func (f *Frame) clone() *Frame {
	n := &Frame{fn: f.fn, env: make(map[ssa.Value]Val, len(f.env)), loops: map[int]*loopRun{}, spec: f.spec, args: f.args, loopSet: f.loopSet}
	for k, v := range f.env {
		n.env[k] = v
	}
	for k, v := range f.loops {
		n.loops[k] = v
	}
	n.defers = append([]func(*State){}, f.defers...)
	return n
}

type Obligation struct {
	Name   string
	Kind   string // ensures, inv-entry, inv-preserved, requires, nopanic, assert, cover, lemma
	Func   string
	Pos    string
	Hyps   []T
	Goal   T
	Decls  int // number of engine decls visible
	Result *SolveResult
	Expect string // "unsat" normally (negated goal), "sat" for cover
	Trace  []string
	Trivial bool
	Script string
	RawSMT string
}

type execError struct{ msg string }

type Exec struct {
	e        *Engine
	bankErrOnlyInsufficient bool // set by the BurnCoins model for the next bankOp
	bankErrOnlyNonPositive  bool // set by the MintCoins model (C05 only) for the next bankOp
	specs    *SpecDB
	obls     []*Obligation
	root     *FuncSpec
	rootFn   *ssa.Function
	nopanic  bool
	paths    int
	maxPaths int
	quiet    int
	errs     []string
	inlined  map[string]bool
	byContract map[string]bool
	unmodelled map[string]bool
	oblCount map[string]int
	entry    *State
	usedModels map[string]string
	axiomsLoaded bool
	shaArgs []T
	commute *commuteCtx
	deadline time.Time // wall-clock budget of the symbolic execution of one function
	effectsMode bool // inline every repository callee, loops cut at the invariant true: only the effects are collected
	famMu     sync.Mutex
	famReads  map[string]bool // key families read / written by the function under verification
	famWrites map[string]bool
	shaPCs [][]T
}

func (x *Exec) fail(format string, a ...interface{}) {
	panic(execError{fmt.Sprintf(format, a...)})
}

func (x *Exec) emit(st *State, kind, name, pos string, goal T) {
	if x.quiet > 0 {
		return
	}
	x.oblCount[name]++
	full := name
	if n := x.oblCount[name]; n > 1 {
		full = fmt.Sprintf("%s~%d", name, n)
	}
	o := &Obligation{Name: full, Kind: kind, Func: x.rootFn.String(), Pos: pos, Hyps: append([]T(nil), st.PC...), Goal: goal, Decls: len(x.e.decls), Expect: "unsat", Trace: append([]string(nil), st.Trace...)}
	if goal.S == "true" {
		o.Trivial = true
	}
	x.obls = append(x.obls, o)
}

// panicIf: a panic happens when cond holds. In nopanic mode it is an obligation; afterwards the path continues under !cond.
func (x *Exec) panicIf(st *State, cond T, what string, pos token.Pos) {
	if cond.S == "false" {
		return
	}
	if x.nopanic && x.panicKindSelected(what) {
		x.emit(st, "nopanic", x.oblName("nopanic@"+what), x.posStr(pos), Not(cond))
	}
	if cond.S == "true" {
		if os.Getenv("GOVC_DEBUG_LOOPS") != "" {
			fmt.Fprintf(os.Stderr, "path ends: certain panic %s at %s\n", what, x.posStr(pos))
		}
		panic(pathEnd{}) // this path always panics here: it ends
	}
	st.assume(Not(cond), "no panic: "+what)
}

func (x *Exec) panicKindSelected(what string) bool {
	if x.root == nil || len(x.root.NoPanicOnly) == 0 {
		return true
	}
	for _, k := range x.root.NoPanicOnly {
		if strings.Contains(what, k) {
			return true
		}
	}
	return false
}

// pathEnd is raised when the current path cannot continue (certain panic); it is caught at the nearest fork.
type pathEnd struct{}

func (x *Exec) tryPath(f func()) {
	defer func() {
		if r := recover(); r != nil {
			if _, ok := r.(pathEnd); ok {
				return
			}
			panic(r)
		}
	}()
	f()
}

func (x *Exec) oblName(suffix string) string {
	return x.root.Prop + "/L1/" + x.root.Name + "/" + suffix
}

func (x *Exec) posStr(p token.Pos) string {
	if !p.IsValid() {
		return ""
	}
	pp := x.e.prog.Fset.Position(p)
	f := pp.Filename
	if i := strings.Index(f, repoRoot+"/"); i >= 0 {
		i += len(repoRoot) - len("/repo")
		f = f[i+6:]
	}
	return fmt.Sprintf("%s:%d", f, pp.Line)
}

// ---------------------------------------------------------------------------

func (x *Exec) execFunc(st *State, fn *ssa.Function, args []Val, spec *FuncSpec, k func(*State, Val)) {
	if fn.Blocks == nil {
		x.fail("function %s has no body", fn)
	}
	for _, f := range st.Frames {
		if f.fn == fn {
			x.fail("recursive inlining of %s (needs a contract)", fn)
		}
	}
	if len(st.Frames) > 40 {
		x.fail("inlining too deep at %s", fn)
	}
	fr := &Frame{fn: fn, env: map[ssa.Value]Val{}, loops: map[int]*loopRun{}, spec: spec, args: args}
	fr.loopSet = findLoops(fn)
	for i, p := range fn.Params {
		fr.env[p] = args[i]
	}
	st.Frames = append(st.Frames, fr)
	x.execBlock(st, fr, fn.Blocks[0], nil, func(st2 *State, v Val) {
		st2.Frames = st2.Frames[:len(st2.Frames)-1]
		k(st2, v)
	})
}

// findLoops: natural loops keyed by header block index.
func findLoops(fn *ssa.Function) map[int]map[int]bool {
	res := map[int]map[int]bool{}
	for _, b := range fn.Blocks {
		for _, s := range b.Succs {
			if s.Dominates(b) {
				// back edge b -> s
				set := res[s.Index]
				if set == nil {
					set = map[int]bool{s.Index: true}
					res[s.Index] = set
				}
				var stack []*ssa.BasicBlock
				if !set[b.Index] {
					set[b.Index] = true
					stack = append(stack, b)
				}
				for len(stack) > 0 {
					n := stack[len(stack)-1]
					stack = stack[:len(stack)-1]
					for _, p := range n.Preds {
						if !set[p.Index] {
							set[p.Index] = true
							stack = append(stack, p)
						}
					}
				}
			}
		}
	}
	return res
}

func loopOrdinal(fr *Frame, header int) int {
	var hs []int
	for h := range fr.loopSet {
		hs = append(hs, h)
	}
	sort.Ints(hs)
	for i, h := range hs {
		if h == header {
			return i + 1
		}
	}
	return 0
}

func (x *Exec) execBlock(st *State, fr *Frame, b *ssa.BasicBlock, prev *ssa.BasicBlock, k func(*State, Val)) {
	// leaving a loop under discovery ends the path
	for h, lr := range fr.loops {
		if lr.discover && !lr.blocks[b.Index] {
			_ = h
			return
		}
	}
	if cc := x.commute; cc != nil && fr.fn == cc.header.Parent() {
		if b == cc.header && prev != nil && cc.blocks[prev.Index] {
			// back edge of the range loop under commutation analysis: capture the accumulators
			idx := -1
			for i, p := range b.Preds {
				if p == prev {
					idx = i
				}
			}
			var vals []Val
			for _, p := range x.commuteHeaderPhis(b) {
				vals = append(vals, x.val(st, fr, p.Edges[idx]))
			}
			cc.results = append(cc.results, iterResult{st: st, phis: vals})
			return
		}
		if !cc.blocks[b.Index] {
			cc.escaped = true
			cc.escapes = append(cc.escapes, st)
			return
		}
	}
	if blocks, isHeader := fr.loopSet[b.Index]; isHeader {
		if lr, active := fr.loops[b.Index]; active {
			if prev != nil && blocks[prev.Index] {
				// back edge
				if lr.discover {
					return
				}
				x.bindPhis(st, fr, b, prev)
				x.checkInvariant(st, fr, lr, "inv-preserved")
				return
			}
		}
		// loop entry
		ord := loopOrdinal(fr, b.Index)
		ls := x.findLoopSpec(st, fr, ord)
		if x.effectsMode {
			ls = &LoopSpec{Ordinal: ord}
		}
		if ls == nil {
			x.fail("loop %d of %s (block %d, %s) has no invariant", ord, fr.fn, b.Index, x.posStr(firstPos(b)))
		}
		x.bindPhis(st, fr, b, prev)
		lr := &loopRun{spec: ls, blocks: blocks, ordinal: ord, header: b.Index}
		x.checkInvariant(st, fr, lr, "inv-entry")
		// discovery pass with havocked phis
		dst := st.clone()
		dfr := dst.top()
		x.havocPhis(dst, dfr, b)
		dst.Written = map[int]bool{}
		dst.GWrit = map[string]bool{}
		dfr.loops[b.Index] = &loopRun{spec: ls, discover: true, blocks: blocks, ordinal: ord, header: b.Index}
		x.quiet++
		func() {
			defer func() { x.quiet-- }()
			x.execInstrs(dst, dfr, b, 0, func(*State, Val) {})
		}()
		if os.Getenv("GOVC_DEBUG_LOOPS") != "" {
			fmt.Fprintf(os.Stderr, "loop %s#%d: discovered written objects %v ghosts %v\n", shortFuncName(fr.fn), ord, dst.Written, dst.GWrit)
			for o := range dst.Written {
				s := fmt.Sprintf("%v", st.Heap[o])
				if len(s) > 150 {
					s = s[:150]
				}
				fmt.Fprintf(os.Stderr, "   obj %d: %T %s\n", o, st.Heap[o], s)
			}
		}
		// havoc
		lr.entry = st.clone()
		lr.preGhost = map[string]T{}
		for g, t := range st.Worlds[0] {
			lr.preGhost[g] = t
		}
		x.havocPhis(st, fr, b)
		var objs []int
		for o := range dst.Written {
			if _, ok := st.Heap[o]; ok {
				objs = append(objs, o)
			}
		}
		sort.Ints(objs)
		for _, o := range objs {
			before := st.Heap[o]
			st.Heap[o] = x.havocLike(st, st.Heap[o], o)
			if x.e.iterPosObjs[o] {
				// the position of a store iterator starts at 0 and is only ever advanced by Next: across any loop
				// it does not decrease (an invariant of the iterator model, not of the program)
				if b, ok := before.(T); ok {
					if a, ok := st.Heap[o].(T); ok && a.So == SInt && b.So == SInt {
						x.e.note("the position of a store iterator only advances (a fact of the iterator model, assumed at every loop cut)")
						st.assume(Ge(a, b), "iterator position only advances")
					}
				}
			}
		}
		var gs []string
		for g := range dst.GWrit {
			gs = append(gs, g)
		}
		sort.Strings(gs)
		for _, g := range gs {
			for w := range st.Worlds {
				if old, ok := st.Worlds[w][g]; ok {
					st.Worlds[w][g] = x.e.fresh(g, old.So)
				}
			}
		}
		x.assumeInvariant(st, fr, lr)
		fr.loops[b.Index] = lr
		x.execInstrs(st, fr, b, 0, k)
		return
	}
	x.bindPhis(st, fr, b, prev)
	x.execInstrs(st, fr, b, 0, k)
}

func (x *Exec) findLoopSpec(st *State, fr *Frame, ord int) *LoopSpec {
	if fr.spec != nil {
		if ls := fr.spec.Loops[fmt.Sprint(ord)]; ls != nil {
			return ls
		}
	}
	key := fmt.Sprintf("%s#%d", shortFuncName(fr.fn), ord)
	for i := len(st.Frames) - 1; i >= 0; i-- {
		if sp := st.Frames[i].spec; sp != nil {
			if ls := sp.Loops[key]; ls != nil {
				return ls
			}
		}
	}
	if x.root != nil {
		if ls := x.root.Loops[key]; ls != nil {
			return ls
		}
	}
	return nil
}

func firstPos(b *ssa.BasicBlock) token.Pos {
	for _, i := range b.Instrs {
		if i.Pos().IsValid() {
			return i.Pos()
		}
	}
	return token.NoPos
}

func (x *Exec) bindPhis(st *State, fr *Frame, b *ssa.BasicBlock, prev *ssa.BasicBlock) {
	if prev == nil {
		return
	}
	idx := -1
	for i, p := range b.Preds {
		if p == prev {
			idx = i
		}
	}
	var vals []Val
	var phis []*ssa.Phi
	for _, in := range b.Instrs {
		phi, ok := in.(*ssa.Phi)
		if !ok {
			break
		}
		phis = append(phis, phi)
		vals = append(vals, x.val(st, fr, phi.Edges[idx]))
	}
	for i, phi := range phis {
		fr.env[phi] = vals[i]
	}
}

func (x *Exec) havocPhis(st *State, fr *Frame, b *ssa.BasicBlock) {
	for _, in := range b.Instrs {
		phi, ok := in.(*ssa.Phi)
		if !ok {
			break
		}
		hint := phi.Comment
		if hint == "" {
			hint = phi.Name()
		}
		old := fr.env[phi]
		fr.env[phi] = x.havocValLike(st, old, hint, phi.Type())
		if phi.Comment == "rangeindex" {
			x.assumeRangeIndex(st, fr, b, phi)
		}
	}
}

// assumeRangeIndex: the hidden index of a `for range` over a slice, array or string is a phi of -1 (entry) and
// index+1 (every back edge, taken only after index+1 < len held), with len evaluated once before the loop. So
// -1 <= index, and index < len unless index == -1, is an invariant of the SSA construction itself, not of the
// program; it is assumed at the cut instead of being demanded from every contract.
func (x *Exec) assumeRangeIndex(st *State, fr *Frame, b *ssa.BasicBlock, phi *ssa.Phi) {
	var inc *ssa.BinOp
	for _, in := range b.Instrs {
		bo, ok := in.(*ssa.BinOp)
		if !ok {
			continue
		}
		if inc == nil {
			if c, isC := bo.Y.(*ssa.Const); bo.Op == token.ADD && bo.X == phi && isC && c.Value != nil && c.Value.ExactString() == "1" {
				inc = bo
			}
			continue
		}
		if bo.Op == token.LSS && bo.X == inc {
			// both edges into the header must be the -1 constant and the increment itself
			for _, e := range phi.Edges {
				if e == inc {
					continue
				}
				if c, isC := e.(*ssa.Const); !isC || c.Value == nil || c.Value.ExactString() != "-1" {
					return
				}
			}
			if _, bound := fr.env[bo.Y]; !bound {
				if _, isC := bo.Y.(*ssa.Const); !isC {
					return
				}
			}
			idx, ok1 := fr.env[phi].(T)
			n, ok2 := x.val(st, fr, bo.Y).(T)
			if !ok1 || !ok2 || idx.So != SInt || n.So != SInt {
				return
			}
			x.e.note("the hidden index of a for-range over a slice is -1 or below the length taken before the loop (a fact of the SSA lowering, assumed at every loop cut)")
			st.assume(And(Ge(idx, IntLit(-1)), Or(Eq(idx, IntLit(-1)), Lt(idx, n))), "range index of the SSA range loop")
			return
		}
	}
}

// havocValLike: fresh value of Go type t; keeps executor-level structure for types that cannot be reified.
func (x *Exec) havocValLike(st *State, old Val, hint string, t types.Type) Val {
	switch o := old.(type) {
	case *ErrV:
		return &ErrV{IsNil: x.e.fresh(hint+"_isnil", SBool)}
	case *PtrV:
		// symbolic pointer: fresh object, symbolic nil-ness
		pt := t.Underlying().(*types.Pointer)
		var inner Val
		if typeString(pt.Elem()) == tyBigInt {
			inner = x.e.fresh(hint, SInt)
		} else {
			inner = x.e.freshVal(st, hint, pt.Elem())
		}
		ob := x.e.newObj(st, inner)
		return &PtrV{Nil: x.e.fresh(hint+"_isnil", SBool), Obj: ob, Elem: pt.Elem()}
	case *CtxV, *OpaqueV, *ClosureV, *FuncV, *CommitV:
		return old
	case *TupleV:
		tt := t.(*types.Tuple)
		n := &TupleV{}
		for i, v := range o.Vs {
			n.Vs = append(n.Vs, x.havocValLike(st, v, fmt.Sprintf("%s_%d", hint, i), tt.At(i).Type()))
		}
		return n
	case NilV:
		if _, isP := t.Underlying().(*types.Pointer); isP {
			return x.havocValLike(st, &PtrV{}, hint, t)
		}
	}
	if isErrorType(t) {
		return &ErrV{IsNil: x.e.fresh(hint+"_isnil", SBool)}
	}
	v := x.e.freshVal(st, hint, t)
	if sl, ok := v.(*SliceV); ok {
		st.assume(Ge(sl.Len, IntLit(0)), "slice length >= 0")
	}
	return v
}

func (x *Exec) havocLike(st *State, old Val, obj int) Val {
	switch o := old.(type) {
	case T:
		if os.Getenv("GOVC_DEBUG_HAVOC") != "" && strings.HasPrefix(o.So, "(Array") {
			buf := make([]byte, 2048)
			n := runtime.Stack(buf, false)
			fmt.Fprintf(os.Stderr, "havoc of obj %d (%s):\n%s\n", obj, o.So, buf[:n])
		}
		return x.e.fresh("h", o.So)
	case *StructV:
		n := &StructV{Typ: o.Typ, F: make([]Val, len(o.F))}
		u := o.Typ.Underlying().(*types.Struct)
		for i := range o.F {
			n.F[i] = x.havocValLike(st, o.F[i], u.Field(i).Name(), u.Field(i).Type())
		}
		return n
	case *ArrV:
		n := &ArrV{Elem: o.Elem}
		for i := range o.Elems {
			n.Elems = append(n.Elems, x.havocValLike(st, o.Elems[i], "el", o.Elem))
		}
		return n
	case *SliceV:
		return x.havocValLike(st, o, "slice", types.NewSlice(o.Elem))
	case *PtrV:
		return x.havocValLike(st, o, "ptr", types.NewPointer(o.Elem))
	case *ErrV:
		return &ErrV{IsNil: x.e.fresh("err_isnil", SBool)}
	case *IfaceV:
		return &IfaceV{Sym: true, Dyn: x.e.fresh("dyn", "Dyn")}
	case NilV:
		return x.havocValLike(st, o, "v", o.Typ)
	}
	return old
}

func isErrorType(t types.Type) bool {
	return types.Identical(t, types.Universe.Lookup("error").Type())
}

func (x *Exec) execInstrs(st *State, fr *Frame, b *ssa.BasicBlock, start int, k func(*State, Val)) {
	if !x.deadline.IsZero() && time.Now().After(x.deadline) {
		x.fail("symbolic execution of %s exceeded its time budget", x.rootFn)
	}
	if t := os.Getenv("GOVC_TRACE"); t != "" && strings.Contains(fr.fn.String(), t) {
		fmt.Fprintf(os.Stderr, "trace[q%d] %s block %d (%s) from %d\n", x.quiet, shortFuncName(fr.fn), b.Index, b.Comment, start)
	}
	for i := start; i < len(b.Instrs); i++ {
		in := b.Instrs[i]
		switch v := in.(type) {
		case *ssa.Phi, *ssa.DebugRef:
			continue
		case *ssa.If:
			c := x.val(st, fr, v.Cond).(T)
			x.branch(st, fr, b, c, func(s2 *State, f2 *Frame) { x.execBlock(s2, f2, b.Succs[0], b, k) }, func(s2 *State, f2 *Frame) { x.execBlock(s2, f2, b.Succs[1], b, k) })
			return
		case *ssa.Jump:
			x.execBlock(st, fr, b.Succs[0], b, k)
			return
		case *ssa.Return:
			var res Val
			switch len(v.Results) {
			case 0:
				res = nil
			case 1:
				res = x.val(st, fr, v.Results[0])
			default:
				t := &TupleV{}
				for _, r := range v.Results {
					t.Vs = append(t.Vs, x.val(st, fr, r))
				}
				res = t
			}
			for h, lr := range fr.loops {
				_ = h
				if lr.discover {
					return
				}
			}
			k(st, res)
			return
		case *ssa.Panic:
			if what := panicLabel(v); x.nopanic && x.panicKindSelected(what) {
				x.emit(st, "nopanic", x.oblName("nopanic@"+what), x.posStr(v.Pos()), TFalse)
			}
			return
		case *ssa.Call:
			idx := i
			x.call(st, fr, v, v.Common(), func(s2 *State, f2 *Frame, r Val) {
				f2.env[v] = r
				x.execInstrs(s2, f2, b, idx+1, k)
			})
			return
		case *ssa.Defer:
			// only iterator Close()/commit-free defers are supported: they have no effect on modelled state
			name := ""
			if v.Call.IsInvoke() {
				name = v.Call.Method.Name()
			} else if f := v.Call.StaticCallee(); f != nil {
				name = f.Name()
			}
			if name != "Close" {
				x.fail("unsupported defer of %s in %s", name, fr.fn)
			}
			continue
		case *ssa.RunDefers:
			continue
		case *ssa.Go, *ssa.Select, *ssa.Send:
			x.fail("unsupported instruction %T in %s", in, fr.fn)
		case *ssa.Store:
			addr := x.val(st, fr, v.Addr)
			val := x.val(st, fr, v.Val)
			x.storeTo(st, addr, val, v.Val.Type(), v.Pos())
		case *ssa.MapUpdate:
			x.mapUpdate(st, fr, v)
		case ssa.Value:
			if forked := x.evalInstr(st, fr, b, i, v, k); forked {
				return
			}
		default:
			x.fail("unsupported instruction %T", in)
		}
	}
}

// branch forks on condition c.
func (x *Exec) branch(st *State, fr *Frame, b *ssa.BasicBlock, c T, thenK, elseK func(*State, *Frame)) {
	if c.S == "true" {
		thenK(st, fr)
		return
	}
	if c.S == "false" {
		elseK(st, fr)
		return
	}
	x.paths++
	if x.paths > x.maxPaths {
		x.fail("path limit exceeded (%d) in %s", x.maxPaths, x.rootFn)
	}
	s2 := st.clone()
	f2 := s2.top()
	st.assume(c, "branch")
	x.tryPath(func() { thenK(st, fr) })
	s2.assume(Not(c), "branch")
	x.tryPath(func() { elseK(s2, f2) })
}

func (x *Exec) constVal(st *State, c *ssa.Const) Val {
	t := c.Type()
	if c.Value == nil {
		// zero value / nil
		return x.zeroVal(st, t)
	}
	switch c.Value.Kind() {
	case constant.Bool:
		return BoolLit(constant.BoolVal(c.Value))
	case constant.String:
		return StrLit(constant.StringVal(c.Value))
	case constant.Int:
		bi, ok := new(big.Int).SetString(c.Value.ExactString(), 10)
		if !ok {
			x.fail("bad int const %s", c.Value)
		}
		if b, ok := t.Underlying().(*types.Basic); ok && b.Info()&types.IsFloat != 0 {
			return T{S: realLit(bi.String()), So: SReal}
		}
		return BigLit(bi)
	case constant.Float:
		return T{S: realOf(c.Value), So: SReal}
	}
	x.fail("unsupported constant %s", c)
	return nil
}

func realLit(s string) string {
	if strings.HasPrefix(s, "-") {
		return "(- " + s[1:] + ".0)"
	}
	return s + ".0"
}

func realOf(v constant.Value) string {
	r := constant.ToFloat(v)
	n := constant.Num(r)
	d := constant.Denom(r)
	ns, ds := n.ExactString(), d.ExactString()
	neg := strings.HasPrefix(ns, "-")
	if neg {
		ns = ns[1:]
	}
	s := fmt.Sprintf("(/ %s.0 %s.0)", ns, ds)
	if neg {
		s = "(- " + s + ")"
	}
	return s
}

func (x *Exec) zeroVal(st *State, t types.Type) Val {
	ts := typeString(t)
	switch ts {
	case tySdkInt, tySdkUint, tySdkDec, tyDuration, tyTime:
		return IntLit(0)
	case tyAddress, tyHash:
		n := 20
		if ts == tyHash {
			n = 32
		}
		return T{S: smtStrLit(make([]byte, n)), So: SString}
	}
	if isErrorType(t) {
		return &ErrV{IsNil: TTrue}
	}
	switch u := t.Underlying().(type) {
	case *types.Basic:
		switch {
		case u.Info()&types.IsBoolean != 0:
			return TFalse
		case u.Info()&types.IsInteger != 0:
			return IntLit(0)
		case u.Info()&types.IsFloat != 0:
			return T{S: "0.0", So: SReal}
		case u.Info()&types.IsString != 0:
			return StrLit("")
		case u.Kind() == types.UntypedNil:
			return NilV{Typ: t}
		}
	case *types.Pointer:
		return &PtrV{Nil: TTrue, Obj: 0, Elem: u.Elem()}
	case *types.Slice:
		if isByte(u.Elem()) {
			return T{S: `""`, So: SString, Segs: []Seg{}, Nil: "true"}
		}
		return &SliceV{Back: -1, Off: IntLit(0), Len: IntLit(0), Elem: u.Elem()}
	case *types.Array:
		if isByte(u.Elem()) && u.Len() > 64 {
			return T{S: smtStrLit(make([]byte, u.Len())), So: SString}
		}
		a := &ArrV{Elem: u.Elem()}
		for i := int64(0); i < u.Len(); i++ {
			a.Elems = append(a.Elems, x.zeroVal(st, u.Elem()))
		}
		return a
	case *types.Struct:
		sv := &StructV{Typ: t}
		for i := 0; i < u.NumFields(); i++ {
			sv.F = append(sv.F, x.zeroVal(st, u.Field(i).Type()))
		}
		return sv
	case *types.Interface:
		return &IfaceV{}
	case *types.Map:
		return NilV{Typ: t}
	case *types.Signature:
		return NilV{Typ: t}
	}
	x.fail("zeroVal: unsupported type %s", ts)
	return nil
}

func (x *Exec) val(st *State, fr *Frame, v ssa.Value) Val {
	switch c := v.(type) {
	case *ssa.Const:
		return x.constVal(st, c)
	case *ssa.Function:
		return &FuncV{Fn: c}
	case *ssa.Builtin:
		return &BuiltinV{Name: c.Name()}
	case *ssa.Global:
		return x.globalAddr(st, c)
	case *ssa.FreeVar:
		r, ok := fr.env[v]
		if !ok {
			x.fail("unbound free var %s in %s", v.Name(), fr.fn)
		}
		return r
	}
	r, ok := fr.env[v]
	if !ok {
		x.fail("unbound value %s (%T) in %s", v.Name(), v, fr.fn)
	}
	return r
}

// globals: package-level variables. Known immutable ones get models; others are fresh per path (and the same within a path).
func (x *Exec) globalAddr(st *State, g *ssa.Global) Val {
	key := "global:" + g.String()
	for id, v := range st.Heap {
		if o, ok := v.(*OpaqueV); ok && o.Tag == key {
			return &PtrV{Nil: TFalse, Obj: id, Path: []PathEl{{Field: 0}}, Elem: g.Type().(*types.Pointer).Elem()}
		}
	}
	elem := g.Type().(*types.Pointer).Elem()
	var inner Val
	if h, ok := globalModels[g.String()]; ok {
		inner = h(x, st)
	} else if n, ok := constIntGlobal(g); ok {
		// package-level sdk.Int initialised with sdk.NewInt(<constant>) and never assigned again
		inner = IntLit(n)
	} else if lit, ok := constByteGlobal(g); ok {
		// package-level []byte initialised with a literal and never assigned again (key prefixes)
		inner = T{S: smtStrLit(lit), So: SString, Segs: []Seg{{Kind: "const", Lit: lit, S: smtStrLit(lit)}}}
	} else if isErrorType(elem) {
		inner = &ErrV{IsNil: TFalse}
	} else {
		inner = x.havocValLike(st, x.tryZero(st, elem), g.Name(), elem)
	}
	// wrap in a 1-field pseudo struct so that the pointer path works
	o := x.e.newObj(st, &OpaqueV{Tag: key})
	st.Heap[o] = &globalCell{Tag: key, V: inner}
	return &PtrV{Nil: TFalse, Obj: o, Path: nil, Elem: elem}
}

type globalCell struct {
	Tag string
	V   Val
}

func (x *Exec) tryZero(st *State, t types.Type) (v Val) {
	defer func() {
		if r := recover(); r != nil {
			v = &OpaqueV{Tag: typeString(t)}
		}
	}()
	return x.zeroVal(st, t)
}

func (x *Exec) loadFrom(st *State, addr Val, t types.Type, pos token.Pos) Val {
	p, ok := addr.(*PtrV)
	if !ok {
		x.fail("load from non-pointer %T at %s", addr, x.posStr(pos))
	}
	x.panicIf(st, p.Nil, "nil-deref", pos)
	if gc, ok := st.Heap[p.Obj].(*globalCell); ok {
		return x.e.getPath(st, gc.V, p.Path)
	}
	v := x.e.load(st, p)
	// element read out of an SMT array: reflect into executor value
	if tv, ok := v.(T); ok && len(p.Path) > 0 && p.Path[len(p.Path)-1].Idx != nil {
		if _, isT := st.Heap[p.Obj].(T); isT || x.pathThroughSMT(st, p) {
			r := x.e.reflect(st, tv, t)
			if pv, isPtr := r.(*PtrV); isPtr && len(p.Path) == 1 {
				// pointer element stored by value: remember where it came from so that writes go back
				x.e.elemAlias[pv.Obj] = elemAliasT{Arr: p.Obj, Idx: *p.Path[0].Idx, Elem: t}
			}
			return r
		}
	}
	return v
}

func (x *Exec) pathThroughSMT(st *State, p *PtrV) bool {
	v := st.Heap[p.Obj]
	for _, pe := range p.Path {
		if _, ok := v.(T); ok {
			return true
		}
		switch vv := v.(type) {
		case *StructV:
			v = vv.F[pe.Field]
		case *ArrV:
			i, _ := isLit(*pe.Idx)
			v = vv.Elems[i]
		}
	}
	return false
}

func (x *Exec) storeTo(st *State, addr Val, val Val, t types.Type, pos token.Pos) {
	p, ok := addr.(*PtrV)
	if !ok {
		x.fail("store to non-pointer %T at %s", addr, x.posStr(pos))
	}
	x.panicIf(st, p.Nil, "nil-deref", pos)
	if gc, ok := st.Heap[p.Obj].(*globalCell); ok {
		st.Heap[p.Obj] = &globalCell{Tag: gc.Tag, V: x.e.setPath(st, gc.V, p.Path, val, p)}
		return
	}
	// store through an element of an SMT array possibly followed by field path: read-modify-write
	root := st.Heap[p.Obj]
	if _, isT := root.(T); isT && len(p.Path) >= 1 && p.Path[0].Idx != nil {
		et := x.elemTypeOfBacking(p)
		if len(p.Path) == 1 {
			x.e.store(st, &PtrV{Obj: p.Obj, Path: p.Path[:1]}, x.e.reify(st, val, et))
			return
		}
		// nested: reflect element, update, write back
		cur := x.e.reflect(st, x.e.getPath(st, root, p.Path[:1]).(T), et)
		inner := cur
		// element types that are pointers reflect to PtrV: update pointee object then reify
		if pp, ok := inner.(*PtrV); ok {
			x.e.store(st, &PtrV{Obj: pp.Obj, Path: p.Path[1:]}, val)
			x.e.store(st, &PtrV{Obj: p.Obj, Path: p.Path[:1]}, x.e.reify(st, pp, et))
			return
		}
		upd := x.e.setPath(st, inner, p.Path[1:], val, p)
		x.e.store(st, &PtrV{Obj: p.Obj, Path: p.Path[:1]}, x.e.reify(st, upd, et))
		return
	}
	x.e.store(st, p, val)
	if al, ok := x.e.elemAlias[p.Obj]; ok {
		if arr, live := st.Heap[al.Arr].(T); live {
			idx := al.Idx
			elemTerm := x.e.reify(st, &PtrV{Nil: TFalse, Obj: p.Obj}, al.Elem)
			st.Heap[al.Arr] = T{S: fmt.Sprintf("(store %s %s %s)", arr.S, idx.S, elemTerm.S), So: arr.So}
			if st.Written != nil {
				st.Written[al.Arr] = true
			}
		}
	}
}

func (x *Exec) elemTypeOfBacking(p *PtrV) types.Type {
	if t, ok := x.e.objElem[p.Obj]; ok {
		return t
	}
	x.fail("unknown element type of backing object %d", p.Obj)
	return nil
}

func (x *Exec) mapUpdate(st *State, fr *Frame, v *ssa.MapUpdate) {
	m := x.val(st, fr, v.Map)
	mv, ok := m.(*MapV)
	if !ok {
		x.fail("map update on %T", m)
	}
	mt := v.Map.Type().Underlying().(*types.Map)
	key := x.e.reify(st, x.val(st, fr, v.Key), mt.Key())
	val := x.e.reify(st, x.val(st, fr, v.Value), mt.Elem())
	cur := st.Heap[mv.Obj].(T)
	so := cur.So
	st.Heap[mv.Obj] = T{S: fmt.Sprintf("(mk_%s (store (has_%s %s) %s true) (store (val_%s %s) %s %s))", so, so, cur.S, key.S, so, cur.S, key.S, val.S), So: so}
	if st.Written != nil {
		st.Written[mv.Obj] = true
	}
}

var constByteGlobals sync.Map

// constByteGlobal: g is a package-level []byte whose only assignment is `g = []byte{c0, c1, ...}` in the package
// initialiser. Returns the bytes.
func constByteGlobal(g *ssa.Global) ([]byte, bool) {
	if v, ok := constByteGlobals.Load(g); ok {
		b, _ := v.([]byte)
		return b, b != nil
	}
	res := func() []byte {
		sl, ok := g.Type().(*types.Pointer).Elem().Underlying().(*types.Slice)
		if !ok || !isByte(sl.Elem()) || g.Pkg == nil {
			return nil
		}
		var lit []byte
		stores := 0
		for _, mem := range g.Pkg.Members {
			fn, ok := mem.(*ssa.Function)
			if !ok {
				continue
			}
			fns := append([]*ssa.Function{fn}, fn.AnonFuncs...)
			for _, f := range fns {
				for _, b := range f.Blocks {
					for _, in := range b.Instrs {
						// any use of the global's address other than a load counts as a possible write
						for _, op := range in.Operands(nil) {
							if *op != ssa.Value(g) {
								continue
							}
							if u, isLoad := in.(*ssa.UnOp); isLoad && u.X == ssa.Value(g) {
								continue
							}
							st, isStore := in.(*ssa.Store)
							if !isStore || st.Addr != ssa.Value(g) || f.Name() != "init" || f.Synthetic == "" {
								return nil
							}
							stores++
							if cv, isConv := st.Val.(*ssa.Convert); isConv {
								// g = []byte("literal")
								if k, isConst := cv.X.(*ssa.Const); isConst && k.Value != nil && k.Value.Kind() == constant.String {
									lit = []byte(constant.StringVal(k.Value))
									continue
								}
								return nil
							}
							s, ok := st.Val.(*ssa.Slice)
							if !ok || s.Low != nil || s.High != nil {
								return nil
							}
							al, ok := s.X.(*ssa.Alloc)
							if !ok {
								return nil
							}
							at, ok := al.Type().(*types.Pointer).Elem().Underlying().(*types.Array)
							if !ok {
								return nil
							}
							buf := make([]byte, at.Len())
							for _, ref := range *al.Referrers() {
								switch r := ref.(type) {
								case *ssa.IndexAddr:
									idx, ok := r.Index.(*ssa.Const)
									if !ok {
										return nil
									}
									for _, rr := range *r.Referrers() {
										es, ok := rr.(*ssa.Store)
										if !ok {
											return nil
										}
										c, ok := es.Val.(*ssa.Const)
										if !ok {
											return nil
										}
										buf[idx.Int64()] = byte(c.Int64())
									}
								case *ssa.Slice:
								default:
									return nil
								}
							}
							lit = buf
						}
					}
				}
			}
		}
		// methods of the package's types may also touch the global
		for _, mem := range g.Pkg.Members {
			if tn, ok := mem.(*ssa.Type); ok {
				for _, t := range []types.Type{tn.Type(), types.NewPointer(tn.Type())} {
					ms := g.Pkg.Prog.MethodSets.MethodSet(t)
					for i := 0; i < ms.Len(); i++ {
						f := g.Pkg.Prog.MethodValue(ms.At(i))
						if f == nil || f.Blocks == nil || f.Pkg != g.Pkg {
							continue
						}
						for _, b := range f.Blocks {
							for _, in := range b.Instrs {
								if st, ok := in.(*ssa.Store); ok && st.Addr == ssa.Value(g) {
									return nil
								}
							}
						}
					}
				}
			}
		}
		if stores != 1 {
			return nil
		}
		return lit
	}()
	constByteGlobals.Store(g, res)
	return res, res != nil
}

// globalWrittenOutsideInit: some function of the package other than the synthetic initialiser uses the address of g
// for anything but a load.
func globalWrittenOutsideInit(g *ssa.Global) bool {
	var fns []*ssa.Function
	for _, pk := range g.Pkg.Prog.AllPackages() {
		if pk.Pkg == nil || !strings.Contains(pk.Pkg.Path(), "MinterTeam/mhub2") {
			continue
		}
		for _, mem := range pk.Members {
			switch m := mem.(type) {
			case *ssa.Function:
				fns = append(fns, m)
				fns = append(fns, m.AnonFuncs...)
			case *ssa.Type:
				for _, t := range []types.Type{m.Type(), types.NewPointer(m.Type())} {
					ms := g.Pkg.Prog.MethodSets.MethodSet(t)
					for i := 0; i < ms.Len(); i++ {
						if f := g.Pkg.Prog.MethodValue(ms.At(i)); f != nil && f.Blocks != nil && f.Pkg == pk {
							fns = append(fns, f)
							fns = append(fns, f.AnonFuncs...)
						}
					}
				}
			}
		}
	}
	for _, f := range fns {
		isInit := f.Name() == "init" && f.Synthetic != "" && f.Pkg == g.Pkg
		for _, b := range f.Blocks {
			for _, in := range b.Instrs {
				for _, op := range in.Operands(nil) {
					if *op != ssa.Value(g) {
						continue
					}
					if u, isLoad := in.(*ssa.UnOp); isLoad && u.X == ssa.Value(g) {
						continue
					}
					if _, dbg := in.(*ssa.DebugRef); dbg {
						continue
					}
					if st, isStore := in.(*ssa.Store); isStore && st.Addr == ssa.Value(g) && isInit {
						continue
					}
					return true
				}
			}
		}
	}
	return false
}

var constIntGlobals sync.Map

// constIntGlobal: g is a package-level sdk.Int whose only assignment is `g = sdk.NewInt(<constant>)` in the package
// initialiser (an unexported-or-not variable that other packages could assign is still accepted only if no repository
// package does: exported globals of the repository are never assigned across packages in the loaded program).
func constIntGlobal(g *ssa.Global) (int64, bool) {
	if v, ok := constIntGlobals.Load(g); ok {
		if v == nil {
			return 0, false
		}
		return v.(int64), true
	}
	res, ok := func() (int64, bool) {
		if g.Pkg == nil || typeString(g.Type().(*types.Pointer).Elem()) != "github.com/cosmos/cosmos-sdk/types.Int" || globalWrittenOutsideInit(g) {
			return 0, false
		}
		init := g.Pkg.Func("init")
		if init == nil {
			return 0, false
		}
		n, found := int64(0), 0
		for _, b := range init.Blocks {
			for _, in := range b.Instrs {
				st, ok := in.(*ssa.Store)
				if !ok || st.Addr != ssa.Value(g) {
					continue
				}
				c, ok := st.Val.(*ssa.Call)
				if !ok {
					return 0, false
				}
				f, ok := c.Common().Value.(*ssa.Function)
				if !ok || f.String() != "github.com/cosmos/cosmos-sdk/types.NewInt" {
					return 0, false
				}
				k, ok := c.Common().Args[0].(*ssa.Const)
				if !ok {
					return 0, false
				}
				n = k.Int64()
				found++
			}
		}
		return n, found == 1
	}()
	if ok {
		constIntGlobals.Store(g, res)
	} else {
		constIntGlobals.Store(g, nil)
	}
	return res, ok
}

// panicLabel names an explicit panic by what it reports, so that obligations (and known findings) tell the sites
// of one function apart without line numbers: "panic:<first words of a constant message>", or
// "panic:err-of-<callee>" when the argument is (a wrapping of) the error result of a call, else "panic".
func panicLabel(p *ssa.Panic) string {
	v := p.X
	for depth := 0; depth < 8; depth++ {
		switch t := v.(type) {
		case *ssa.MakeInterface:
			v = t.X
			continue
		case *ssa.ChangeInterface:
			v = t.X
			continue
		case *ssa.Const:
			if t.Value != nil && t.Value.Kind() == constant.String {
				words := strings.FieldsFunc(constant.StringVal(t.Value), func(r rune) bool {
					return !(r >= 'a' && r <= 'z' || r >= 'A' && r <= 'Z' || r >= '0' && r <= '9')
				})
				if len(words) > 4 {
					words = words[:4]
				}
				if len(words) > 0 {
					return "panic:" + strings.ToLower(strings.Join(words, "-"))
				}
			}
			return "panic"
		case *ssa.Extract:
			v = t.Tuple
			continue
		case *ssa.Phi:
			// an error variable assigned on several paths: follow the first non-nil edge
			var next ssa.Value
			for _, e := range t.Edges {
				if c, isC := e.(*ssa.Const); isC && c.Value == nil {
					continue
				}
				next = e
				break
			}
			if next == nil {
				return "panic"
			}
			v = next
			continue
		case *ssa.Call:
			name := ""
			if t.Call.IsInvoke() {
				name = t.Call.Method.Name()
			} else if f := t.Call.StaticCallee(); f != nil {
				name = f.Name()
			}
			if (name == "Wrap" || name == "Wrapf" || name == "Errorf") && len(t.Call.Args) > 0 {
				// error wrappers: the wrapped error is what matters
				var inner ssa.Value
				for _, a := range t.Call.Args {
					if isErrorType(a.Type()) {
						inner = a
						break
					}
				}
				if inner != nil {
					v = inner
					continue
				}
			}
			if name != "" {
				return "panic:err-of-" + name
			}
			return "panic"
		}
		break
	}
	return "panic"
}
