package main

// Effect inference (layer F): which ghost variables a repository function may write, closed over the SSA call graph.
// Used as the default frame of callees without an explicit modifies clause, and for writer-set obligations.

import (
	"go/types"
	"sort"
	"strings"
	"sync"

	"golang.org/x/tools/go/ssa"
)

type effSet map[string]bool

var effAll = effSet{"Store": true, "OStore": true, "Supply": true, "Bal": true}

type effectDB struct {
	mu   sync.Mutex
	memo map[*ssa.Function]effSet
	prog *ssa.Program
}

var effects *effectDB

func newEffectDB(prog *ssa.Program) *effectDB {
	return &effectDB{memo: map[*ssa.Function]effSet{}, prog: prog}
}

func isRepoFn(fn *ssa.Function) bool {
	p := fn.Pkg
	for f := fn; p == nil && f.Parent() != nil; f = f.Parent() {
		p = f.Parent().Pkg
	}
	return p != nil && strings.Contains(p.Pkg.Path(), "MinterTeam/mhub2")
}

func storeNameFor(fn *ssa.Function) string {
	for f := fn; f != nil; f = f.Parent() {
		if f.Pkg != nil && strings.Contains(f.Pkg.Pkg.Path(), "/x/oracle") {
			return "OStore"
		}
	}
	return "Store"
}

func (db *effectDB) of(fn *ssa.Function) effSet {
	db.mu.Lock()
	defer db.mu.Unlock()
	return db.compute(fn, map[*ssa.Function]bool{})
}

func (db *effectDB) compute(fn *ssa.Function, visiting map[*ssa.Function]bool) effSet {
	if r, ok := db.memo[fn]; ok {
		return r
	}
	if visiting[fn] {
		return effSet{}
	}
	visiting[fn] = true
	res := effSet{}
	add := func(s effSet) {
		for k := range s {
			res[k] = true
		}
	}
	if fn.Blocks == nil {
		db.memo[fn] = res
		return res
	}
	for _, b := range fn.Blocks {
		for _, in := range b.Instrs {
			var cc *ssa.CallCommon
			switch c := in.(type) {
			case *ssa.Call:
				cc = c.Common()
			case *ssa.Defer:
				cc = c.Common()
			case *ssa.Go:
				cc = c.Common()
			case *ssa.MakeClosure:
				// closures created here may be called by callees: include their effects
				add(db.compute(c.Fn.(*ssa.Function), visiting))
				continue
			default:
				continue
			}
			if cc.IsInvoke() {
				add(db.invokeEffects(fn, cc, visiting))
				continue
			}
			switch v := cc.Value.(type) {
			case *ssa.Function:
				if isRepoFn(v) || v.Synthetic != "" {
					add(db.compute(v, visiting))
				} else if strings.HasPrefix(v.String(), "(github.com/cosmos/cosmos-sdk/store/prefix.Store).Set") || strings.HasPrefix(v.String(), "(github.com/cosmos/cosmos-sdk/store/prefix.Store).Delete") {
					res[storeNameFor(fn)] = true
				}
			case *ssa.Builtin:
			case *ssa.MakeClosure:
				add(db.compute(v.Fn.(*ssa.Function), visiting))
			default:
				// call through a function value: parameters (callbacks) are covered by the MakeClosure rule at the
				// creation site; CacheContext commit closures install a child world
				if t, ok := cc.Value.Type().Underlying().(*types.Signature); ok && t.Params().Len() == 0 && t.Results().Len() == 0 {
					add(effAll)
				}
			}
		}
	}
	delete(visiting, fn)
	db.memo[fn] = res
	return res
}

func (db *effectDB) invokeEffects(fn *ssa.Function, cc *ssa.CallCommon, visiting map[*ssa.Function]bool) effSet {
	res := effSet{}
	recvT := typeString(cc.Value.Type())
	m := cc.Method.Name()
	switch {
	case strings.HasSuffix(recvT, "KVStore"):
		if m == "Set" || m == "Delete" {
			res[storeNameFor(fn)] = true
		}
	case strings.HasSuffix(recvT, "BankKeeper"):
		switch m {
		case "MintCoins", "BurnCoins":
			res["Supply"] = true
			res["Bal"] = true
		case "SendCoinsFromModuleToAccount", "SendCoinsFromAccountToModule", "SendCoinsFromModuleToModule":
			res["Bal"] = true
		}
	case strings.Contains(recvT, "Handle("):
		for k := range effAll {
			res[k] = true
		}
	default:
		// interface implemented by repository types: union over the implementers
		if iface, ok := cc.Value.Type().Underlying().(*types.Interface); ok {
			for _, p := range db.prog.AllPackages() {
				if p.Pkg == nil || !strings.Contains(p.Pkg.Path(), "MinterTeam/mhub2") {
					continue
				}
				for _, mem := range p.Members {
					tn, ok := mem.(*ssa.Type)
					if !ok {
						continue
					}
					for _, t := range []types.Type{tn.Type(), types.NewPointer(tn.Type())} {
						if _, isI := tn.Type().Underlying().(*types.Interface); isI {
							continue
						}
						if types.Implements(t, iface) {
							if f := db.prog.LookupMethod(t, cc.Method.Pkg(), m); f != nil && f.Blocks != nil {
								for k := range db.compute(f, visiting) {
									res[k] = true
								}
							}
						}
					}
				}
			}
		}
	}
	return res
}

func (s effSet) list() []string {
	var r []string
	for k := range s {
		r = append(r, k)
	}
	sort.Strings(r)
	return r
}
