package main

// C07, layer F: the ABI JSON input types used by the Go checkpoint code equal, position by position, the Solidity
// types of the values Hub2.sol passes to abi.encode for the same digest. The Solidity side is extracted from
// /repo/solidity/contracts/Hub2.sol on every run.

import (
	"encoding/json"
	"fmt"
	"go/constant"
	"os"
	"regexp"
	"strings"

	"golang.org/x/tools/go/ssa"
)

type solSite struct {
	name     string // our name
	goConst  string // ABI JSON constant in package types
	goMethod string
	anchor   string // text that identifies the abi.encode site
}

var solSites = []solSite{
	{"makeCheckpoint", "SignerSetTxCheckpointABIJSON", "checkpoint", "abi.encode(_gravityId, methodName, _valsetNonce, _validators, _powers)"},
	{"submitBatch", "BatchTxCheckpointABIJSON", "submitBatch", "0x7472616e73616374696f6e426174636800000000000000000000000000000000"},
	{"submitLogicCall", "ContractCallTxABIJSON", "checkpoint", "0x6c6f67696343616c6c0000000000000000000000000000000000000000000000"},
}

// solEncodeArgs returns the argument expressions of the abi.encode( ... ) call containing the anchor.
func solEncodeArgs(src, anchor string) ([]string, error) {
	i := strings.Index(src, anchor)
	if i < 0 {
		return nil, fmt.Errorf("anchor not found: %s", anchor)
	}
	start := strings.LastIndex(src[:i+len(anchor)], "abi.encode(")
	if start < 0 {
		return nil, fmt.Errorf("abi.encode not found before anchor")
	}
	j := start + len("abi.encode(")
	depth := 1
	k := j
	for ; k < len(src) && depth > 0; k++ {
		switch src[k] {
		case '(':
			depth++
		case ')':
			depth--
		}
	}
	body := src[j : k-1]
	// strip comments
	body = regexp.MustCompile(`//[^\n]*`).ReplaceAllString(body, "")
	var args []string
	for _, a := range strings.Split(body, ",") {
		a = strings.TrimSpace(a)
		if a != "" {
			args = append(args, a)
		}
	}
	return args, nil
}

func solTypeOf(src, expr string) (string, error) {
	if strings.HasPrefix(expr, "0x") && len(expr) == 66 {
		return "bytes32", nil
	}
	id := expr
	if i := strings.LastIndex(expr, "."); i >= 0 {
		id = expr[i+1:]
	}
	re := regexp.MustCompile(`\b(bytes32|bytes|address payable\[\]|address\[\]|address payable|address|uint256\[\]|uint256)\s+(?:public\s+|memory\s+|calldata\s+|private\s+|internal\s+)*` + regexp.QuoteMeta(id) + `\b`)
	ms := re.FindAllStringSubmatch(src, -1)
	if len(ms) == 0 {
		return "", fmt.Errorf("no declaration found for %s", expr)
	}
	norm := func(t string) string { return strings.Replace(t, " payable", "", 1) }
	t := norm(ms[0][1])
	for _, m := range ms[1:] {
		if norm(m[1]) != t {
			return "", fmt.Errorf("ambiguous Solidity type for %s: %s vs %s", expr, t, m[1])
		}
	}
	return t, nil
}

// solGuard returns one report per site; an error means the Solidity source could not be analysed (no verdict).
func solGuard(l *Loaded, prop string) ([]*OblReport, error) {
	data, err := os.ReadFile(repoRoot + "/solidity/contracts/Hub2.sol")
	if err != nil {
		return nil, err
	}
	src := string(data)
	var typesPkg *ssa.Package
	for _, p := range l.spkgs {
		if p != nil && strings.HasSuffix(p.Pkg.Path(), "/x/mhub2/types") {
			typesPkg = p
		}
	}
	if typesPkg == nil {
		return nil, fmt.Errorf("types package not loaded")
	}
	var reps []*OblReport
	for _, site := range solSites {
		args, err := solEncodeArgs(src, site.anchor)
		if err != nil {
			return nil, fmt.Errorf("%s: %v", site.name, err)
		}
		var solTypes []string
		for _, a := range args {
			t, err := solTypeOf(src, a)
			if err != nil {
				return nil, fmt.Errorf("%s: %v", site.name, err)
			}
			solTypes = append(solTypes, t)
		}
		nc, ok := typesPkg.Members[site.goConst].(*ssa.NamedConst)
		if !ok {
			return nil, fmt.Errorf("constant %s not found", site.goConst)
		}
		var abi []struct {
			Name   string `json:"name"`
			Inputs []struct {
				Name string `json:"name"`
				Type string `json:"type"`
			} `json:"inputs"`
		}
		rep := &OblReport{Name: fmt.Sprintf("%s/F/abi-types/%s", prop, site.name), Kind: "abi-binding", Func: "types." + site.goConst, Solver: "syntactic"}
		if err := json.Unmarshal([]byte(constant.StringVal(nc.Value.Value)), &abi); err != nil || len(abi) != 1 {
			rep.Status = "failed: ABI JSON does not parse as a single function"
			reps = append(reps, rep)
			continue
		}
		var goTypes []string
		for _, in := range abi[0].Inputs {
			goTypes = append(goTypes, in.Type)
		}
		switch {
		case abi[0].Name != site.goMethod:
			rep.Status = fmt.Sprintf("failed: ABI method name %q, the Go code packs %q", abi[0].Name, site.goMethod)
		case strings.Join(goTypes, ",") != strings.Join(solTypes, ","):
			rep.Status = fmt.Sprintf("failed: ABI JSON input types [%s] differ from the Solidity abi.encode argument types [%s] (%s)", strings.Join(goTypes, ","), strings.Join(solTypes, ","), strings.Join(args, ", "))
		default:
			rep.Status = "discharged"
		}
		reps = append(reps, rep)
	}
	return reps, nil
}
