package main

// Replay of counter-models on the real code: a Go test template per function under contract is instantiated with
// the solver's model and injected into the package with `go test -overlay` (nothing is written to /repo).

import (
	"encoding/json"
	"fmt"
	"os"
	"os/exec"
	"path/filepath"
	"regexp"
	"strings"
)

var defFunRe = regexp.MustCompile(`\(define-fun ([^ ]+) \(\) (Int|String|Bool)\s+`)

// parseModel extracts scalar constants from a solver model.
func parseModel(model string) map[string]string {
	res := map[string]string{}
	idxs := defFunRe.FindAllStringSubmatchIndex(model, -1)
	for _, m := range idxs {
		name := model[m[2]:m[3]]
		rest := model[m[1]:]
		// value: up to the matching close paren of define-fun
		depth := 0
		end := 0
		inStr := false
		for i := 0; i < len(rest); i++ {
			c := rest[i]
			if inStr {
				if c == '"' {
					inStr = false
				}
				continue
			}
			switch c {
			case '"':
				inStr = true
			case '(':
				depth++
			case ')':
				depth--
				if depth < 0 {
					end = i
				}
			}
			if end > 0 {
				break
			}
		}
		val := strings.TrimSpace(rest[:end])
		val = strings.Join(strings.Fields(val), " ")
		if strings.HasPrefix(val, "(- ") {
			val = "-" + strings.TrimSuffix(val[3:], ")")
		}
		res[name] = val
	}
	return res
}

// modelValue finds the value of the first fresh constant created with the given hint (e.g. "totalPower" -> totalPower!7).
func modelValue(m map[string]string, hint string) (string, bool) {
	if v, ok := m[hint]; ok {
		return strings.Trim(v, "\""), true
	}
	best := ""
	bestN := 1 << 30
	for k, v := range m {
		i := strings.LastIndex(k, "!")
		if i < 0 || k[:i] != hint {
			continue
		}
		n := 0
		fmt.Sscanf(k[i+1:], "%d", &n)
		if n < bestN {
			bestN = n
			best = v
		}
	}
	return best, best != ""
}

var placeholderRe = regexp.MustCompile(`\$\{([A-Za-z0-9_]+)(?::([^}]*))?\}`)

type replayResult struct {
	Ran       bool
	Confirmed bool
	Output    string
	TestFile  string
}

func sanitizeFile(s string) string {
	return strings.NewReplacer("/", "_", "(", "", ")", "", "*", "", "$", "_", " ", "").Replace(s)
}

// tryReplay instantiates the replay template of the obligation's function (if there is one) and runs it.
func tryReplay(prop string, rep *OblReport, o *Obligation) *replayResult {
	res := &replayResult{}
	fn := specShort(rep.Func) // e.g. keeper.(Keeper).TryEventVoteRecord
	base := baseOblName(rep.Name)
	cl := base[strings.LastIndex(base, "/")+1:]
	cands := []string{
		filepath.Join("/verif/replay/templates", sanitizeFile(fn)+"__"+sanitizeFile(cl)+".go.tmpl"),
		filepath.Join("/verif/replay/templates", sanitizeFile(fn)+".go.tmpl"),
	}
	var tmpl []byte
	for _, c := range cands {
		if b, err := os.ReadFile(c); err == nil {
			tmpl = b
			break
		}
	}
	if tmpl == nil {
		return res
	}
	model := map[string]string{}
	if o != nil && o.Result != nil && (o.Result.Status == "sat" || o.Result.Status == "candidate") {
		model = parseModel(o.Result.Model)
	}
	// header of the template: "//replay-pkg: module/x/mhub2/types" and "//replay-module: module"
	pkgDir, modDir := "", "module"
	modfile := ""
	for _, line := range strings.Split(string(tmpl), "\n") {
		if strings.HasPrefix(line, "//replay-modfile:") && strings.Contains(line, "connector") {
			if mf, err := connectorModfile(); err == nil {
				modfile = mf
			}
		}
		if strings.HasPrefix(line, "//replay-pkg:") {
			pkgDir = strings.TrimSpace(strings.TrimPrefix(line, "//replay-pkg:"))
		}
		if strings.HasPrefix(line, "//replay-module:") {
			modDir = strings.TrimSpace(strings.TrimPrefix(line, "//replay-module:"))
		}
	}
	if pkgDir == "" {
		return res
	}
	haveModel := len(model) > 0
	body := placeholderRe.ReplaceAllStringFunc(string(tmpl), func(s string) string {
		m := placeholderRe.FindStringSubmatch(s)
		if m[1] == "HAVE_MODEL" {
			return fmt.Sprint(haveModel)
		}
		if v, ok := modelValue(model, m[1]); ok {
			return v
		}
		return m[2] // default
	})
	dir := filepath.Join(outRoot, prop, "replay")
	os.MkdirAll(dir, 0o755)
	testFile := filepath.Join(dir, sanitizeFile(rep.Name)+"_replay_test.go")
	os.WriteFile(testFile, []byte(body), 0o644)
	res.TestFile = testFile
	ov := map[string]map[string]string{"Replace": {filepath.Join(repoRoot, pkgDir, "zz_govc_replay_test.go"): testFile}}
	ovb, _ := json.Marshal(ov)
	ovFile := testFile + ".overlay.json"
	os.WriteFile(ovFile, ovb, 0o644)
	rel := "./" + strings.TrimPrefix(pkgDir, modDir+"/")
	args := []string{"test", "-overlay", ovFile, "-vet=off", "-count=1", "-timeout", "120s", "-run", "TestGovcReplay"}
	if modfile != "" {
		args = append(args, "-modfile="+modfile)
	}
	args = append(args, rel)
	cmd := exec.Command("go", args...)
	cmd.Dir = filepath.Join(repoRoot, modDir)
	cmd.Env = goEnv
	out, _ := cmd.CombinedOutput()
	res.Ran = true
	res.Output = string(out)
	res.Confirmed = strings.Contains(res.Output, "REPLAY-CONFIRMED")
	return res
}
