package main

import (
	"encoding/json"
	"flag"
	"fmt"
	"go/types"
	"os"
	"path/filepath"
	"runtime/debug"
	"sort"
	"strings"
	"sync"
	"time"

	"golang.org/x/tools/go/packages"
	"golang.org/x/tools/go/ssa"
	"golang.org/x/tools/go/ssa/ssautil"
)

type Loaded struct {
	pkgs  []*packages.Package
	prog  *ssa.Program
	spkgs []*ssa.Package
	specs *SpecDB
}

var goEnv = append(os.Environ(), "GOFLAGS=-mod=mod", "GOPROXY=off", "GOSUMDB=off", "GOTOOLCHAIN=local")

func loadModule(dir string, patterns []string, overlay map[string][]byte, modfile string) (*Loaded, error) {
	flags := []string{"-tags=verif"}
	if modfile != "" {
		flags = append(flags, "-modfile="+modfile)
	}
	cfg := &packages.Config{Mode: packages.LoadSyntax | packages.NeedModule, Dir: dir, BuildFlags: flags, Env: goEnv, Overlay: overlay}
	pkgs, err := packages.Load(cfg, patterns...)
	if err != nil {
		return nil, err
	}
	var errs []string
	for _, p := range pkgs {
		for _, e := range p.Errors {
			errs = append(errs, e.Error())
		}
	}
	if len(errs) > 0 {
		return nil, fmt.Errorf("package errors:\n%s", strings.Join(errs, "\n"))
	}
	prog, spkgs := ssautil.Packages(pkgs, ssa.GlobalDebug)
	for _, p := range spkgs {
		if p != nil {
			p.Build()
		}
	}
	effects = newEffectDB(prog)
	specs, err := LoadSpecs(pkgs)
	if err != nil {
		return nil, err
	}
	return &Loaded{pkgs: pkgs, prog: prog, spkgs: spkgs, specs: specs}, nil
}

func (l *Loaded) findFunc(spec *FuncSpec) *ssa.Function {
	for _, sp := range l.spkgs {
		if sp == nil || sp.Pkg.Path() != spec.Pkg {
			continue
		}
		var found *ssa.Function
		var visit func(fn *ssa.Function)
		visit = func(fn *ssa.Function) {
			if fn == nil || found != nil {
				return
			}
			if shortFuncName(fn) == spec.Name {
				found = fn
				return
			}
			for _, an := range fn.AnonFuncs {
				visit(an)
			}
		}
		for _, m := range sp.Members {
			switch mm := m.(type) {
			case *ssa.Function:
				visit(mm)
			case *ssa.Type:
				for _, t := range []types.Type{mm.Type(), types.NewPointer(mm.Type())} {
					ms := l.prog.MethodSets.MethodSet(t)
					for i := 0; i < ms.Len(); i++ {
						fn := l.prog.MethodValue(ms.At(i))
						if fn != nil && fn.Synthetic == "" {
							visit(fn)
						}
					}
				}
			}
		}
		if found != nil {
			return found
		}
	}
	return nil
}

// FuncResult: outcome of verifying one function under contract for one property.
type FuncResult struct {
	Func        string        `json:"func"`
	Pos         string        `json:"pos"`
	Instrs      int           `json:"ssa_instructions"`
	Paths       int           `json:"paths"`
	Obls        []*Obligation `json:"-"`
	Err         string        `json:"error,omitempty"`
	Inlined     []string      `json:"inlined_callees,omitempty"`
	ByContract  []string      `json:"callees_by_contract,omitempty"`
	Unmodelled  []string      `json:"unmodelled_pure_calls,omitempty"`
	Models      map[string]string `json:"library_models_used,omitempty"`
	Assumptions []string      `json:"assumptions,omitempty"`
	e           *Engine
	Secs        float64 `json:"exec_s"`
}

func verifyFunc(l *Loaded, spec *FuncSpec, prop string) (res *FuncResult) {
	start := time.Now()
	res = &FuncResult{Func: spec.Pkg + "." + spec.Name}
	fn := l.findFunc(spec)
	if fn == nil {
		res.Err = "contract does not bind: function not found: " + spec.Name
		return
	}
	sp := *spec
	sp.Prop = prop
	e := NewEngine(l.prog)
	res.e = e
	x := &Exec{e: e, specs: l.specs, root: &sp, rootFn: fn, maxPaths: 20000, inlined: map[string]bool{}, byContract: map[string]bool{}, unmodelled: map[string]bool{}, oblCount: map[string]int{}, usedModels: map[string]string{}}
	x.nopanic = sp.NoPanic["*"] || sp.NoPanic[prop]
	x.deadline = time.Now().Add(5 * time.Minute)
	for _, b := range fn.Blocks {
		res.Instrs += len(b.Instrs)
	}
	res.Pos = x.posStr(fn.Pos())
	defer func() {
		res.Secs = time.Since(start).Seconds()
		res.Obls = x.obls
		res.Paths = x.paths + 1
		for k := range x.inlined {
			res.Inlined = append(res.Inlined, k)
		}
		for k := range x.byContract {
			res.ByContract = append(res.ByContract, k)
		}
		for k := range x.unmodelled {
			res.Unmodelled = append(res.Unmodelled, k)
		}
		res.Models = x.usedModels
		for k := range e.assumpt {
			res.Assumptions = append(res.Assumptions, k)
		}
		sort.Strings(res.Inlined)
		sort.Strings(res.ByContract)
		sort.Strings(res.Unmodelled)
		sort.Strings(res.Assumptions)
		if r := recover(); r != nil {
			if ee, ok := r.(execError); ok {
				res.Err = ee.msg
			} else {
				res.Err = fmt.Sprintf("engine panic: %v\n%s", r, debug.Stack())
			}
		}
	}()
	if sp.HashInj {
		x.verifyHashInj(l, fn, &sp, prop)
		return
	}
	st := &State{Heap: map[int]Val{}, Worlds: map[int]map[string]T{0: {}}}
	x.initGhost(st)
	var args []Val
	for _, p := range fn.Params {
		v := x.havocValLike(st, x.tryZero(st, p.Type()), p.Name(), p.Type())
		if pv, ok := v.(*PtrV); ok {
			pv.Nil = TFalse // pointer parameters are non-nil unless a contract says otherwise
			e.note("pointer parameters of functions under contract are non-nil and pairwise non-aliased")
		}
		// "nullable p.Field": that pointer field of the parameter may be nil
		for _, np := range sp.Nullable {
			parts := strings.Split(np, ".")
			if len(parts) != 2 || parts[0] != p.Name() {
				continue
			}
			sv, ok := v.(*StructV)
			if pv, isP := v.(*PtrV); isP {
				sv, ok = st.Heap[pv.Obj].(*StructV)
			}
			if !ok {
				x.fail("nullable %s: parameter is not a struct value", np)
			}
			us := sv.Typ.Underlying().(*types.Struct)
			done := false
			for i := 0; i < us.NumFields(); i++ {
				if us.Field(i).Name() == parts[1] {
					fv := sv.F[i]
					if tv, isT := fv.(T); isT {
						fv = e.reflect(st, tv, us.Field(i).Type())
					}
					fp, isP := fv.(*PtrV)
					if !isP {
						x.fail("nullable %s: field is not a pointer (%T)", np, fv)
					}
					sv.F[i] = &PtrV{Nil: e.fresh(parts[1]+"_isnil", SBool), Obj: fp.Obj, Path: fp.Path, Elem: fp.Elem}
					sv.Orig = nil
					done = true
				}
			}
			if !done {
				x.fail("nullable %s: no such field", np)
			}
		}
		args = append(args, v)
	}
	// free variables of closures under contract: fresh cells
	fr := &Frame{fn: fn, env: map[ssa.Value]Val{}, loops: map[int]*loopRun{}, spec: &sp, args: args, loopSet: findLoops(fn)}
	for i, p := range fn.Params {
		fr.env[p] = args[i]
	}
	for _, fv := range fn.FreeVars {
		fr.env[fv] = x.havocValLike(st, x.tryZero(st, fv.Type()), fv.Name(), fv.Type())
		if pv, ok := fr.env[fv].(*PtrV); ok {
			pv.Nil = TFalse
		}
	}
	st.Frames = []*Frame{fr}
	cpre := x.envFor(st, nil, fr, nil)
	for _, r := range sp.Requires {
		if !r.appliesTo(prop) {
			continue
		}
		st.assume(x.evalClause(cpre, r), "requires "+r.Name)
	}
	x.entry = st.clone()
	// cover: preconditions satisfiable
	cov := &Obligation{Name: x.oblName("cover/requires"), Kind: "cover", Func: fn.String(), Hyps: append([]T(nil), st.PC...), Goal: TFalse, Expect: "sat"}
	x.obls = append(x.obls, cov)
	nReturned := 0
	nSeen := 0
	x.tryPath(func() { x.execBlock(st, fr, fn.Blocks[0], nil, func(s2 *State, result Val) {
		fr2 := s2.Frames[0]
		c := x.envFor(s2, x.entry, fr2, result)
		c.frames = nil
		x.applyLets(c, &sp)
		for _, en := range sp.Ensures {
			if !en.appliesTo(prop) {
				continue
			}
			if en.Kind == "defines" {
				// definitional clause: names the (deterministic) result with a spec function; nothing to prove
				e.note("definitional contract clause (assumed at call sites): " + sp.Name + " " + en.Src)
				continue
			}
			g := x.evalClause(c, en)
			x.emit(s2, "ensures", x.oblName(en.Name), en.Line, g)
		}
		if sp.ModSet {
			// frame: ghost state outside the modifies clause is unchanged
			mods := map[string]bool{}
			for _, g := range sp.Modifies {
				mods[g] = true
			}
			var gs []string
			for g := range s2.Worlds[0] {
				gs = append(gs, g)
			}
			sort.Strings(gs)
			for _, g := range gs {
				if !mods[g] {
					x.emit(s2, "frame", x.oblName("frame/"+g), sp.File, Eq(s2.Worlds[0][g], x.entry.Worlds[0][g]))
				}
			}
		}
		nSeen++
		if nReturned < 12 || (nSeen%8 == 0 && nReturned < 72) || (crossCheck && nReturned < 600) {
			// reachability: some return path must be satisfiable (paths are not pruned, so single paths may be infeasible);
			// the first dozen return paths and a sample of the later ones are tried
			nReturned++
			x.obls = append(x.obls, &Obligation{Name: fmt.Sprintf("%s~%d", x.oblName("cover/return"), nReturned), Kind: "cover-any", Func: fn.String(), Hyps: append([]T(nil), s2.PC...), Goal: TFalse, Expect: "sat"})
		}
	}) })
	return
}

func (x *Exec) initGhost(st *State) {
	w := st.Worlds[0]
	w["Store"] = x.e.fresh("Store", "(Array Key OptS)")
	w["OStore"] = x.e.fresh("OStore", "(Array Key OptS)")
	w["Supply"] = x.e.fresh("Supply", "(Array String Int)")
	w["Bal"] = x.e.fresh("Bal", "(Array String (Array String Int))")
}

// ---------------------------------------------------------------------------
// SMT script assembly.

func (e *Engine) script(o *Obligation, dropQuant bool) string {
	if o.RawSMT != "" {
		// standalone lemma: prelude + raw SMT text (the text asserts the negation of the lemma)
		ax := ""
		for _, a := range strings.Split(strings.TrimSpace(preludeAxioms), "\n") {
			if sym := axiomSymbol(a); sym != "" && strings.Contains(o.RawSMT, "("+sym+" ") {
				ax += a + "\n"
			}
		}
		return "(set-option :produce-models true)\n(set-logic ALL)\n" + keyDatatype() + preludeDecls + prelude + decPrelude + ax + o.RawSMT
	}
	var sb strings.Builder
	sb.WriteString("(set-option :produce-models true)\n(set-logic ALL)\n")
	sb.WriteString(keyDatatype())
	sb.WriteString(e.datatypeDecls())
	sb.WriteString(preludeDecls)
	sb.WriteString(prelude)
	sb.WriteString(decPrelude)
	for _, d := range e.decls {
		sb.WriteString(d)
		sb.WriteByte('\n')
	}
	cover := o.Expect == "sat" || dropQuant
	var body strings.Builder
	for _, h := range o.Hyps {
		if cover && (strings.Contains(h.S, "(forall ") || strings.Contains(h.S, "(exists ")) {
			continue
		}
		fmt.Fprintf(&body, "(assert %s)\n", h.S)
	}
	if o.Expect == "unsat" {
		fmt.Fprintf(&body, "(assert (not %s))\n", o.Goal.S)
	}
	if !cover {
		// cover (satisfiability) queries drop all quantified formulas: solvers cannot build models for them.
		// Quantified axioms are included only when the function they constrain occurs in the query (relevance
		// filter; iterated to a fixpoint because axioms mention other functions).
		all := append(strings.Split(strings.TrimSpace(preludeAxioms), "\n"), e.axioms...)
		used := map[int]bool{}
		text := body.String()
		for changed := true; changed; {
			changed = false
			for i, a := range all {
				if used[i] {
					continue
				}
				if sym := axiomSymbol(a); sym == "" || strings.Contains(text, "("+sym+" ") {
					used[i] = true
					changed = true
					text += a
				}
			}
		}
		for i, a := range all {
			if used[i] {
				sb.WriteString(a)
				sb.WriteByte('\n')
				e.axiomMu.Lock()
				if n, ok := e.axiomNote[a]; ok {
					e.axiomUsed[n] = true
				}
				e.axiomMu.Unlock()
			}
		}
	}
	sb.WriteString(body.String())
	return sb.String()
}

// axiomSymbol: the function symbol an axiom is triggered by (from its :pattern), "" if unknown.
func axiomSymbol(a string) string {
	i := strings.LastIndex(a, ":pattern ((")
	if i < 0 {
		return ""
	}
	rest := a[i+len(":pattern (("):]
	j := strings.IndexAny(rest, " )")
	if j < 0 {
		return ""
	}
	return rest[:j]
}

// datatypeDecls: all datatypes in dependency order (Dyn depends on payload sorts; structs may depend on Dyn).
func (e *Engine) datatypeDecls() string {
	type decl struct {
		name, text string
	}
	var ds []decl
	for _, d := range e.dtOrder {
		// "(declare-datatypes ((NAME 0)) ..."
		i := strings.Index(d, "((") + 2
		j := strings.Index(d[i:], " ")
		ds = append(ds, decl{d[i : i+j], d})
	}
	ds = append(ds, decl{"Dyn", e.dynDecl()})
	names := map[string]bool{}
	for _, d := range ds {
		names[d.name] = true
	}
	deps := map[string][]string{}
	for _, d := range ds {
		for n := range names {
			if n != d.name && containsSortRef(d.text, n) {
				deps[d.name] = append(deps[d.name], n)
			}
		}
	}
	byName := map[string]string{}
	for _, d := range ds {
		byName[d.name] = d.text
	}
	// strongly connected components (Tarjan): mutually recursive datatypes are declared together
	index := map[string]int{}
	low := map[string]int{}
	onStack := map[string]bool{}
	var stack []string
	var out []string
	n := 0
	var strong func(v string)
	strong = func(v string) {
		n++
		index[v], low[v] = n, n
		stack = append(stack, v)
		onStack[v] = true
		sort.Strings(deps[v])
		for _, w := range deps[v] {
			if index[w] == 0 {
				strong(w)
				if low[w] < low[v] {
					low[v] = low[w]
				}
			} else if onStack[w] && index[w] < low[v] {
				low[v] = index[w]
			}
		}
		if low[v] == index[v] {
			var comp []string
			for {
				w := stack[len(stack)-1]
				stack = stack[:len(stack)-1]
				onStack[w] = false
				comp = append(comp, w)
				if w == v {
					break
				}
			}
			if len(comp) == 1 {
				out = append(out, byName[comp[0]])
				return
			}
			sort.Strings(comp)
			var heads, bodies []string
			for _, c := range comp {
				t := byName[c]
				// "(declare-datatypes ((NAME 0)) (BODY))"
				i := strings.Index(t, " 0)) (") + len(" 0)) (")
				heads = append(heads, "("+c+" 0)")
				bodies = append(bodies, t[i:len(t)-2])
			}
			out = append(out, "(declare-datatypes ("+strings.Join(heads, " ")+") ("+strings.Join(bodies, " ")+"))")
		}
	}
	for _, d := range ds {
		if index[d.name] == 0 {
			strong(d.name)
		}
	}
	return strings.Join(out, "\n") + "\n"
}

func containsSortRef(text, name string) bool {
	for i := 0; ; {
		j := strings.Index(text[i:], name)
		if j < 0 {
			return false
		}
		k := i + j
		before := text[k-1]
		after := byte(' ')
		if k+len(name) < len(text) {
			after = text[k+len(name)]
		}
		if (before == ' ' || before == '(') && (after == ')' || after == ' ') {
			return true
		}
		i = k + len(name)
	}
}

// ---------------------------------------------------------------------------

type OblReport struct {
	Name    string  `json:"name"`
	Kind    string  `json:"kind"`
	Func    string  `json:"func"`
	Line    string  `json:"contract_line,omitempty"`
	Status  string  `json:"status"`
	Solver  string  `json:"solver,omitempty"`
	Secs    float64 `json:"solver_s"`
	Bytes   int     `json:"smt_bytes"`
	Trivial bool    `json:"trivial,omitempty"`
}

func discharge(results []*FuncResult, timeoutS int, shortFor map[string]bool) []*OblReport {
	var wg sync.WaitGroup
	var mu sync.Mutex
	var reps []*OblReport
	// cover-any groups need one satisfiable member only: their members first get a short timeout (paths that are
	// hard to cover would otherwise cost the full timeout each); a group without any covered member is retried
	// with the full timeout below
	groupSize := map[string]int{}
	for _, r := range results {
		if r.e == nil {
			continue
		}
		for _, o := range r.Obls {
			if o.Kind == "cover-any" {
				groupSize[r.Func+"|"+baseOblName(o.Name)]++
			}
		}
	}
	type retry struct {
		rep    *OblReport
		o      *Obligation
		script string
	}
	var retries []retry
	for _, r := range results {
		if r.e == nil {
			continue
		}
		for _, o := range r.Obls {
			o := o
			r := r
			rep := &OblReport{Name: o.Name, Kind: o.Kind, Func: r.Func, Line: o.Pos, Trivial: o.Trivial}
			mu.Lock()
			reps = append(reps, rep)
			mu.Unlock()
			if o.Trivial && o.Expect == "unsat" {
				rep.Status = "discharged"
				rep.Solver = "syntactic"
				o.Result = &SolveResult{Status: "unsat", Solver: "syntactic"}
				continue
			}
			timeoutS := timeoutS
			if shortFor[baseOblName(o.Name)] {
				timeoutS = 3 // listed known finding: expected to stay undischarged
			}
			script := r.e.script(o, false)
			o.Script = script
			rep.Bytes = len(script)
			if o.Kind == "cover-any" && groupSize[r.Func+"|"+baseOblName(o.Name)] > 1 && timeoutS > 10 {
				timeoutS = 10
				mu.Lock()
				retries = append(retries, retry{rep, o, script})
				mu.Unlock()
			}
			hasQuant := strings.Contains(script, "(forall ") || strings.Contains(script, "(exists ")
			var qf string
			if hasQuant && o.Expect == "unsat" {
				qf = r.e.script(o, true)
			}
			wg.Add(1)
			go func() {
				defer wg.Done()
				var sr SolveResult
				sr = Solve(o.Name, script, timeoutS, o.Expect == "unsat")
				if qf != "" && sr.Status != "unsat" && sr.Status != "sat" {
					// undecided: try the quantifier-free weakening (fewer hypotheses). unsat there is still a proof; sat
					// gives a candidate counter-model (it ignores the quantified axioms, so it must replay to count)
					q := Solve(o.Name+".qf", qf, 10, true)
					if q.Status == "unsat" {
						q.Solver += "/qf"
						sr = q
					} else if q.Status == "sat" {
						sr.Model = q.Model
						sr.Raw = "full query: " + sr.Status + "; quantifier-free weakening is satisfiable (candidate model below)\n" + q.Model
						sr.Status = "candidate"
						sr.Solver = q.Solver + "/qf"
					}
				}

				o.Result = &sr
				rep.Solver = sr.Solver
				rep.Secs = sr.Secs
				switch {
				case o.Expect == "unsat" && sr.Status == "unsat":
					rep.Status = "discharged"
				case o.Expect == "sat" && sr.Status == "sat":
					rep.Status = "discharged"
				case o.Expect == "sat" && sr.Status == "unsat":
					rep.Status = "vacuous"
				case o.Expect == "sat":
					rep.Status = "cover-undecided"
				case sr.Status == "sat":
					rep.Status = "refuted"
				case sr.Status == "candidate":
					rep.Status = "undecided:candidate-model"
				default:
					rep.Status = "undecided:" + sr.Status
				}
			}()
		}
	}
	wg.Wait()
	// groups whose members were all cut short: full timeout for each member
	covered := map[string]bool{}
	for _, rep := range reps {
		if rep.Kind == "cover-any" && rep.Status == "discharged" {
			covered[rep.Func+"|"+baseOblName(rep.Name)] = true
		}
	}
	for _, rt := range retries {
		rt := rt
		if covered[rt.rep.Func+"|"+baseOblName(rt.rep.Name)] || rt.rep.Status != "cover-undecided" {
			continue
		}
		wg.Add(1)
		go func() {
			defer wg.Done()
			sr := Solve(rt.o.Name, rt.script, timeoutS, false)
			rt.o.Result = &sr
			rt.rep.Solver, rt.rep.Secs = sr.Solver, sr.Secs
			switch sr.Status {
			case "sat":
				rt.rep.Status = "discharged"
			case "unsat":
				rt.rep.Status = "vacuous"
			}
		}()
	}
	wg.Wait()
	// cover-any groups: one satisfiable member is enough
	groups := map[string][]*OblReport{}
	for _, rep := range reps {
		if rep.Kind == "cover-any" {
			g := rep.Func + "|" + baseOblName(rep.Name)
			groups[g] = append(groups[g], rep)
		}
	}
	for _, g := range groups {
		any := false
		for _, rep := range g {
			if rep.Status == "discharged" {
				any = true
			}
		}
		if any {
			for _, rep := range g {
				if rep.Status != "discharged" {
					rep.Status = "discharged"
					rep.Solver = "group(" + rep.Solver + ")"
				}
			}
		}
	}
	sort.Slice(reps, func(i, j int) bool { return reps[i].Name < reps[j].Name })
	return reps
}

func main() {
	if len(os.Args) < 2 {
		fmt.Fprintln(os.Stderr, "usage: govc <check|dump|funcs> ...")
		os.Exit(2)
	}
	switch os.Args[1] {
	case "check":
		os.Exit(cmdCheck(os.Args[2:]))
	case "mapranges":
		l, err := loadModule(repoRoot+"/module", []string{"./x/mhub2/...", "./x/oracle/..."}, nil, "")
		if err != nil {
			fmt.Fprintln(os.Stderr, err)
			os.Exit(2)
		}
		for _, s := range mapRangeSites(l) {
			fmt.Println(s.fn.String(), l.prog.Fset.Position(s.rng.Pos()))
		}
	case "dump":
		fs := flag.NewFlagSet("dump", flag.ExitOnError)
		pkg := fs.String("pkg", "keeper", "package name suffix")
		fn := fs.String("func", "", "short function name")
		fs.Parse(os.Args[2:])
		l, err := loadModule(repoRoot+"/module", []string{"./x/mhub2/...", "./x/oracle/..."}, nil, "")
		if err != nil {
			fmt.Fprintln(os.Stderr, err)
			os.Exit(2)
		}
		spec := &FuncSpec{Name: *fn}
		for _, sp := range l.spkgs {
			if sp != nil && strings.HasSuffix(sp.Pkg.Path(), *pkg) {
				spec.Pkg = sp.Pkg.Path()
				if f := l.findFunc(spec); f != nil {
					f.WriteTo(os.Stdout)
				}
			}
		}
	default:
		fmt.Fprintln(os.Stderr, "unknown command")
		os.Exit(2)
	}
}

var _ = json.Marshal
var _ = filepath.Join


// verifyHashInj: 2-safety check for claim identifiers. The Hash method is executed on two independent symbolic
// receivers; for every field F of the message, if all other fields agree and the sha256 pre-images are equal then
// F agrees (sha256 collision resistance is assumed, so equal hashes mean equal pre-images).
func (x *Exec) verifyHashInj(l *Loaded, fn *ssa.Function, sp *FuncSpec, prop string) {
	e := x.e
	type run struct {
		recv Val
		pre  T
		pc   []T
		term T
	}
	runs := make([][]run, 2)
	for i := 0; i < 2; i++ {
		st := &State{Heap: map[int]Val{}, Worlds: map[int]map[string]T{0: {}}}
		x.initGhost(st)
		p := fn.Params[0]
		v := x.havocValLike(st, x.tryZero(st, p.Type()), fmt.Sprintf("ev%d", i+1), p.Type())
		if pv, ok := v.(*PtrV); ok {
			pv.Nil = TFalse
		}
		fr := &Frame{fn: fn, env: map[ssa.Value]Val{p: v}, loops: map[int]*loopRun{}, spec: sp, args: []Val{v}, loopSet: findLoops(fn)}
		st.Frames = []*Frame{fr}
		cpre := x.envFor(st, nil, fr, nil)
		for _, r := range sp.Requires {
			st.assume(x.evalClause(cpre, r), "requires "+r.Name)
		}
		x.entry = st.clone()
		x.shaArgs, x.shaPCs = nil, nil
		x.tryPath(func() { x.execBlock(st, fr, fn.Blocks[0], nil, func(s2 *State, result Val) {}) })
		if len(x.shaArgs) == 0 {
			x.fail("hash-injective: no sha256 pre-image found")
		}
		pt := p.Type().(*types.Pointer)
		term := e.reify(x.entry, e.load(x.entry, v.(*PtrV)), pt.Elem())
		for k := range x.shaArgs {
			runs[i] = append(runs[i], run{recv: v, pre: x.shaArgs[k], pc: x.shaPCs[k], term: term})
		}
	}
	pt := fn.Params[0].Type().(*types.Pointer)
	so := e.sortOf(pt.Elem())
	fields := e.dtFields[so]
	for pi, r0 := range runs[0] {
		for pj, r1 := range runs[1] {
			hyps := append(append([]T(nil), r0.pc...), r1.pc...)
			hyps = append(hyps, Eq(r0.pre, r1.pre))
			for _, f := range fields {
				skip := false
				for _, ex := range sp.HashExcept {
					if ex == f.Name {
						skip = true
					}
				}
				if skip {
					continue
				}
				var others []T
				for _, g := range fields {
					if g.Name == f.Name {
						continue
					}
					a := T{S: fmt.Sprintf("(%s_%s %s)", so, g.Name, r0.term.S), So: g.Sort}
					b := T{S: fmt.Sprintf("(%s_%s %s)", so, g.Name, r1.term.S), So: g.Sort}
					others = append(others, Eq(a, b))
				}
				a := T{S: fmt.Sprintf("(%s_%s %s)", so, f.Name, r0.term.S), So: f.Sort}
				b := T{S: fmt.Sprintf("(%s_%s %s)", so, f.Name, r1.term.S), So: f.Sort}
				name := x.oblName("distinguishes/" + f.Name)
				if pi+pj > 0 {
					name = fmt.Sprintf("%s~%d", name, pi*len(runs[1])+pj+1)
				}
				o := &Obligation{Name: name, Kind: "hash-injective", Func: fn.String(), Pos: sp.File,
					Hyps: append(append([]T(nil), hyps...), others...), Goal: Eq(a, b), Expect: "unsat"}
				x.obls = append(x.obls, o)
			}
		}
	}
	e.note("sha256 is collision resistant: equal claim hashes mean equal pre-images (C14 obligations compare pre-images)")
}
