package main

// C06: sources of nondeterminism in the state machine. Map-iteration sites are found in SSA.

import (
	"fmt"
	"go/types"
	"sort"
	"strings"

	"golang.org/x/tools/go/ssa"
)

type rangeSite struct {
	fn  *ssa.Function
	rng *ssa.Range
}

func moduleFunctions(l *Loaded) []*ssa.Function {
	var fns []*ssa.Function
	seen := map[*ssa.Function]bool{}
	var add func(f *ssa.Function)
	add = func(f *ssa.Function) {
		if f == nil || seen[f] || f.Blocks == nil {
			return
		}
		file := l.prog.Fset.Position(f.Pos()).Filename
		if strings.HasSuffix(file, "_test.go") || strings.HasSuffix(file, "test_common.go") || strings.HasSuffix(file, ".pb.go") || strings.HasSuffix(file, ".pb.gw.go") {
			return
		}
		seen[f] = true
		fns = append(fns, f)
		for _, a := range f.AnonFuncs {
			add(a)
		}
	}
	for _, sp := range l.spkgs {
		if sp == nil || !strings.Contains(sp.Pkg.Path(), "MinterTeam/mhub2/module/x/") || strings.Contains(sp.Pkg.Path(), "/client/") {
			continue
		}
		for _, m := range sp.Members {
			switch mm := m.(type) {
			case *ssa.Function:
				add(mm)
			case *ssa.Type:
				for _, t := range []types.Type{mm.Type(), types.NewPointer(mm.Type())} {
					ms := l.prog.MethodSets.MethodSet(t)
					for i := 0; i < ms.Len(); i++ {
						if f := l.prog.MethodValue(ms.At(i)); f != nil && f.Synthetic == "" {
							add(f)
						}
					}
				}
			}
		}
	}
	sort.Slice(fns, func(i, j int) bool { return fns[i].String() < fns[j].String() })
	return fns
}

func mapRangeSites(l *Loaded) []rangeSite {
	var res []rangeSite
	for _, f := range moduleFunctions(l) {
		for _, b := range f.Blocks {
			for _, in := range b.Instrs {
				if r, ok := in.(*ssa.Range); ok {
					if _, isMap := r.X.Type().Underlying().(*types.Map); isMap {
						res = append(res, rangeSite{f, r})
					}
				}
			}
		}
	}
	return res
}

// ---------------------------------------------------------------------------
// Commutation of one iteration of a range-over-map loop (2-safety): executing the body for key a then key b
// gives the same accumulators and heap as b then a. The loop's live-in values are arbitrary.

type commuteCtx struct {
	header  *ssa.BasicBlock
	blocks  map[int]bool
	next    *ssa.Next
	kv      [2]Val
	results []iterResult
	escaped bool
	escapes []*State
}

type iterResult struct {
	st   *State
	phis []Val
}

func (x *Exec) commuteHeaderPhis(h *ssa.BasicBlock) []*ssa.Phi {
	var ps []*ssa.Phi
	for _, in := range h.Instrs {
		if p, ok := in.(*ssa.Phi); ok {
			ps = append(ps, p)
		} else {
			break
		}
	}
	return ps
}

// runIteration executes the loop once from the header with the given accumulator values and key/value.
func (x *Exec) runIteration(st *State, fr *Frame, cc *commuteCtx, phiVals []Val, k, v Val) []iterResult {
	cc.kv = [2]Val{k, v}
	cc.results = nil
	cc.escapes = nil
	for i, p := range x.commuteHeaderPhis(cc.header) {
		fr.env[p] = phiVals[i]
	}
	x.commute = cc
	x.tryPath(func() { x.execInstrs(st, fr, cc.header, len(x.commuteHeaderPhis(cc.header)), func(*State, Val) { cc.escaped = true }) })
	x.commute = nil
	return cc.results
}

func checkCommutes(l *Loaded, site rangeSite, prop string) (rep *OblReport, obl *Obligation, eng *Engine, cover *Obligation) {
	fn := site.fn
	name := fmt.Sprintf("%s/L1/%s/map-range-commutes#%s", prop, shortFuncName(fn), rangeOrdinal(site))
	rep = &OblReport{Name: name, Kind: "commutation", Func: fn.String(), Line: l.prog.Fset.Position(site.rng.Pos()).String()}
	defer func() {
		if r := recover(); r != nil {
			if ee, ok := r.(execError); ok {
				rep.Status = "failed: " + ee.msg
			} else {
				rep.Status = fmt.Sprintf("failed: engine panic: %v", r)
			}
			obl = nil
		}
	}()
	// locate the Next instruction and the loop
	var next *ssa.Next
	for _, ref := range *site.rng.Referrers() {
		if n, ok := ref.(*ssa.Next); ok {
			next = n
		}
	}
	if next == nil {
		rep.Status = "failed: no Next for the range"
		return
	}
	header := next.Block()
	loops := findLoops(fn)
	blocks := loops[header.Index]
	if blocks == nil {
		rep.Status = "failed: range header is not a loop header"
		return
	}
	e := NewEngine(l.prog)
	eng = e
	spec := l.specs.lookup(fn)
	if spec == nil {
		spec = &FuncSpec{Name: shortFuncName(fn), Loops: map[string]*LoopSpec{}, NoPanic: map[string]bool{}}
	}
	sp := *spec
	sp.Prop = prop
	x := &Exec{e: e, specs: l.specs, root: &sp, rootFn: fn, maxPaths: 5000, inlined: map[string]bool{}, byContract: map[string]bool{}, unmodelled: map[string]bool{}, oblCount: map[string]int{}, usedModels: map[string]string{}}
	x.quiet = 1 // inner obligations (inner-loop invariants etc.) belong to the function's own verification
	st := &State{Heap: map[int]Val{}, Worlds: map[int]map[string]T{0: {}}}
	x.initGhost(st)
	fr := &Frame{fn: fn, env: map[ssa.Value]Val{}, loops: map[int]*loopRun{}, spec: &sp, loopSet: loops}
	// live-in values: everything defined outside the loop gets an arbitrary value of its type
	for _, p := range fn.Params {
		fr.env[p] = x.havocValLike(st, x.tryZero(st, p.Type()), p.Name(), p.Type())
		fr.args = append(fr.args, fr.env[p])
	}
	for _, fv := range fn.FreeVars {
		fr.env[fv] = x.havocValLike(st, x.tryZero(st, fv.Type()), fv.Name(), fv.Type())
	}
	// values defined before the loop and used inside it
	used := map[ssa.Value]bool{site.rng.X: true}
	for _, b := range fn.Blocks {
		if !blocks[b.Index] {
			continue
		}
		for _, in := range b.Instrs {
			for _, op := range in.Operands(nil) {
				if *op != nil {
					used[*op] = true
				}
			}
		}
	}
	for _, b := range fn.Blocks {
		if blocks[b.Index] {
			continue
		}
		for _, in := range b.Instrs {
			if v, ok := in.(ssa.Value); ok && used[v] {
				if _, isRange := in.(*ssa.Range); isRange {
					continue
				}
				if isInvalid(v.Type()) {
					continue
				}
				if _, isTuple := v.Type().(*types.Tuple); isTuple {
					continue
				}
				fr.env[v] = x.liveIn(st, v)
			}
		}
	}
	// the ranged map: the value of site.rng.X (already bound above or a parameter)
	mv, ok := x.val(st, fr, site.rng.X).(*MapV)
	if !ok {
		rep.Status = "failed: ranged value is not a modelled map"
		return
	}
	fr.env[site.rng] = &OpaqueV{Tag: "mapiter", Data: map[string]Val{"map": mv}}
	st.Frames = []*Frame{fr}
	x.entry = st.clone()
	mt := site.rng.X.Type().Underlying().(*types.Map)
	ks := e.sortOf(mt.Key())
	k1, k2 := e.fresh("key_a", ks), e.fresh("key_b", ks)
	phis := x.commuteHeaderPhis(header)
	var p0 []Val
	for _, p := range phis {
		p0 = append(p0, x.havocValLike(st, x.tryZero(st, p.Type()), "acc_"+p.Comment, p.Type()))
	}
	cc := &commuteCtx{header: header, blocks: blocks, next: next}
	order := func(first, second T) (res []iterResult) {
		s0 := st.clone()
		f0 := s0.top()
		for _, r1 := range x.runIteration(s0, f0, cc, p0, first, nil) {
			s1 := r1.st
			for _, r2 := range x.runIteration(s1, s1.top(), cc, r1.phis, second, nil) {
				res = append(res, r2)
			}
		}
		return
	}
	if earlyExit(header, blocks, fn) {
		// search loop: leaves at the first key that matches. Order-independent when at most one key can match and
		// the keys that do not match leave no trace.
		name = strings.Replace(name, "map-range-commutes", "map-range-first-match", 1)
		rep.Name = name
		one := func(k T) (match T, idle T, ok bool) {
			s0 := st.clone()
			res := x.runIteration(s0, s0.top(), cc, p0, k, nil)
			var ms, ids []T
			base := len(st.PC)
			for _, es := range cc.escapes {
				ms = append(ms, And(es.PC[base:]...))
			}
			for _, r := range res {
				var eqs []T
				for i, p := range phis {
					eqs = append(eqs, Eq(e.reify(r.st, r.phis[i], p.Type()), e.reify(st, p0[i], p.Type())))
				}
				for o, ov := range st.Heap {
					t, cmp := valEq(ov, r.st.Heap[o])
					if !cmp {
						return TFalse, TFalse, false
					}
					eqs = append(eqs, t)
				}
				for g, gv := range st.Worlds[0] {
					if r.st.Worlds[0][g].S != gv.S {
						eqs = append(eqs, Eq(gv, r.st.Worlds[0][g]))
					}
				}
				ids = append(ids, Implies(And(r.st.PC[base:]...), And(eqs...)))
			}
			return Or(ms...), And(ids...), true
		}
		m1, idle1, ok1 := one(k1)
		m2, _, ok2 := one(k2)
		if !ok1 || !ok2 {
			rep.Status = "failed: cannot compare the state before and after a non-matching iteration"
			return
		}
		cur := st.Heap[mv.Obj].(T)
		has := func(k T) T {
			return T{S: fmt.Sprintf("(select (has_%s %s) %s)", cur.So, cur.S, k.S), So: SBool}
		}
		hyps := append([]T(nil), st.PC...)
		hyps = append(hyps, Not(Eq(k1, k2)), has(k1), has(k2))
		obl = &Obligation{Name: name, Kind: "first-match", Func: fn.String(), Hyps: hyps, Goal: And(Not(And(m1, m2)), idle1), Expect: "unsat"}
		cover = &Obligation{Name: name + "/cover", Kind: "cover", Func: fn.String(), Hyps: append(append([]T(nil), hyps...), m1), Goal: TFalse, Expect: "sat"}
		return
	}
	ab := order(k1, k2)
	ba := order(k2, k1)
	if cc.escaped {
		rep.Status = "failed: the loop body can leave the loop"
		return
	}
	if len(ab) == 0 || len(ba) == 0 {
		rep.Status = "failed: no complete iteration path"
		return
	}
	// the result of an order: accumulators, every heap object of the entry state, every ghost variable
	var objs []int
	for o := range st.Heap {
		objs = append(objs, o)
	}
	sort.Ints(objs)
	var ghosts []string
	for g := range st.Worlds[0] {
		ghosts = append(ghosts, g)
	}
	sort.Strings(ghosts)
	incomparable := ""
	resultEq := func(ra, rb iterResult) T {
		var eqs []T
		for i, p := range phis {
			eqs = append(eqs, Eq(e.reify(ra.st, ra.phis[i], p.Type()), e.reify(rb.st, rb.phis[i], p.Type())))
		}
		for _, o := range objs {
			t, ok := valEq(ra.st.Heap[o], rb.st.Heap[o])
			if !ok {
				incomparable = fmt.Sprintf("heap object %d (%T)", o, ra.st.Heap[o])
			}
			eqs = append(eqs, t)
		}
		for _, g := range ghosts {
			ga, gb := ra.st.Worlds[0][g], rb.st.Worlds[0][g]
			if ga.S != gb.S {
				eqs = append(eqs, Eq(ga, gb))
			}
		}
		return And(eqs...)
	}
	base := len(st.PC)
	var goals []T
	var feas []T
	for _, ra := range ab {
		ca := And(ra.st.PC[base:]...)
		for _, rb := range ba {
			cb := And(rb.st.PC[base:]...)
			goals = append(goals, Implies(And(ca, cb), resultEq(ra, rb)))
			feas = append(feas, And(ca, cb))
		}
	}
	if incomparable != "" {
		rep.Status = "failed: cannot compare the results of the two orders: " + incomparable
		return
	}
	has := func(k T) T {
		cur := st.Heap[mv.Obj].(T)
		return T{S: fmt.Sprintf("(select (has_%s %s) %s)", cur.So, cur.S, k.S), So: SBool}
	}
	hyps := append([]T(nil), st.PC...)
	hyps = append(hyps, Not(Eq(k1, k2)), has(k1), has(k2))
	obl = &Obligation{Name: name, Kind: "commutation", Func: fn.String(), Hyps: hyps, Goal: And(goals...), Expect: "unsat"}
	// vacuity guard: the two orders have a common feasible pair of paths
	cover = &Obligation{Name: name + "/cover", Kind: "cover", Func: fn.String(), Hyps: append(append([]T(nil), hyps...), Or(feas...)), Goal: TFalse, Expect: "sat"}
	return
}

// liveIn: an arbitrary value for an SSA value defined before the loop.
func (x *Exec) liveIn(st *State, v ssa.Value) Val {
	t := v.Type()
	if mt, ok := t.Underlying().(*types.Map); ok {
		so := x.e.sortOf(t)
		_ = mt
		o := x.e.newObj(st, x.e.fresh("map_"+v.Name(), so))
		return &MapV{Obj: o}
	}
	return x.havocValLike(st, x.tryZero(st, t), v.Name(), t)
}

// ---------------------------------------------------------------------------
// Syntactic classes of map-range loops whose result does not depend on the order.

// loopEffects lists the instructions of the loop that can have an effect visible outside one iteration.
func loopEffects(blocks map[int]bool, fn *ssa.Function) []ssa.Instruction {
	var res []ssa.Instruction
	for _, b := range fn.Blocks {
		if !blocks[b.Index] {
			continue
		}
		for _, in := range b.Instrs {
			switch c := in.(type) {
			case *ssa.Store, *ssa.MapUpdate, *ssa.Send, *ssa.Go, *ssa.Defer, *ssa.Panic, *ssa.Return, *ssa.RunDefers:
				res = append(res, in)
			case *ssa.Call:
				if bi, ok := c.Common().Value.(*ssa.Builtin); ok && (bi.Name() == "append" || bi.Name() == "len" || bi.Name() == "cap") {
					continue
				}
				res = append(res, in)
			}
		}
	}
	return res
}

func inLoop(blocks map[int]bool, v ssa.Value) bool {
	in, ok := v.(ssa.Instruction)
	return ok && in.Block() != nil && blocks[in.Block().Index]
}

// appendOf: v is append(acc', ...) where acc' is derived from the accumulator (phi or a load of the cell).
func appendChainFrom(v ssa.Value, isAcc func(ssa.Value) bool) bool {
	for i := 0; i < 8; i++ {
		if isAcc(v) {
			return true
		}
		c, ok := v.(*ssa.Call)
		if !ok {
			return false
		}
		bi, ok := c.Common().Value.(*ssa.Builtin)
		if !ok || bi.Name() != "append" {
			return false
		}
		v = c.Common().Args[0]
	}
	return false
}

// simpleLess: the closure is func(i, j int) bool { return s[i] < s[j] } (or >) over a slice of a basic type.
func simpleLess(mc *ssa.MakeClosure) bool {
	fn := mc.Fn.(*ssa.Function)
	if len(fn.Blocks) != 1 || len(fn.Params) != 2 {
		return false
	}
	var ret *ssa.Return
	for _, in := range fn.Blocks[0].Instrs {
		if r, ok := in.(*ssa.Return); ok {
			ret = r
		}
	}
	if ret == nil || len(ret.Results) != 1 {
		return false
	}
	bo, ok := ret.Results[0].(*ssa.BinOp)
	if !ok || (bo.Op.String() != "<" && bo.Op.String() != ">") {
		return false
	}
	elem := func(v ssa.Value, p *ssa.Parameter) bool {
		u, ok := v.(*ssa.UnOp)
		if !ok {
			return false
		}
		ia, ok := u.X.(*ssa.IndexAddr)
		if !ok || ia.Index != ssa.Value(p) {
			return false
		}
		if _, basic := u.Type().Underlying().(*types.Basic); !basic {
			return false
		}
		ld, ok := ia.X.(*ssa.UnOp)
		if !ok {
			return false
		}
		_, isFree := ld.X.(*ssa.FreeVar)
		return isFree
	}
	return (elem(bo.X, fn.Params[0]) && elem(bo.Y, fn.Params[1]))
}

// sortedCollect: the loop only appends to one slice, and that slice is sorted (total order on a basic element type)
// before anything else reads it. Returns a reason when the pattern does not hold.
func sortedCollect(fn *ssa.Function, header *ssa.BasicBlock, blocks map[int]bool) (bool, string) {
	if earlyExit(header, blocks, fn) {
		return false, "the loop can be left from inside its body"
	}
	var phis []*ssa.Phi
	for _, in := range header.Instrs {
		if p, ok := in.(*ssa.Phi); ok {
			phis = append(phis, p)
		}
	}
	var cell *ssa.Alloc
	var accPhi *ssa.Phi
	effs := loopEffects(blocks, fn)
	for _, in := range effs {
		st, ok := in.(*ssa.Store)
		if !ok {
			return false, fmt.Sprintf("loop has an effect other than collecting: %s", in)
		}
		// stores into an array allocated inside the loop (variadic append argument) are local
		base := st.Addr
		if ia, ok := base.(*ssa.IndexAddr); ok {
			base = ia.X
		}
		if a, ok := base.(*ssa.Alloc); ok && inLoop(blocks, a) {
			continue
		}
		a, ok := st.Addr.(*ssa.Alloc)
		if !ok || inLoop(blocks, a) {
			return false, fmt.Sprintf("loop stores to %s", st.Addr)
		}
		if cell != nil && cell != a {
			return false, "loop stores to two variables"
		}
		cell = a
		if !appendChainFrom(st.Val, func(v ssa.Value) bool {
			u, ok := v.(*ssa.UnOp)
			return ok && u.X == ssa.Value(a)
		}) {
			return false, "the stored value is not append(<the same variable>, ...)"
		}
	}
	if cell == nil {
		if len(phis) != 1 {
			return false, fmt.Sprintf("%d loop-carried values", len(phis))
		}
		accPhi = phis[0]
		for i, pred := range header.Preds {
			if blocks[pred.Index] && !appendChainFrom(accPhi.Edges[i], func(v ssa.Value) bool { return v == ssa.Value(accPhi) }) {
				return false, "the loop-carried value is not append(<itself>, ...)"
			}
		}
	} else if len(phis) != 0 {
		return false, "loop-carried values besides the collected slice"
	}
	if _, isSlice := func() (types.Type, bool) {
		if accPhi != nil {
			s, ok := accPhi.Type().Underlying().(*types.Slice)
			return s, ok
		}
		s, ok := cell.Type().Underlying().(*types.Pointer).Elem().Underlying().(*types.Slice)
		return s, ok
	}(); !isSlice {
		return false, "accumulator is not a slice"
	}
	// after the loop: walk the exit block; the first use of the accumulator must be the sort call
	var exit *ssa.BasicBlock
	for _, s := range header.Succs {
		if !blocks[s.Index] {
			exit = s
		}
	}
	if exit == nil {
		return false, "no loop exit"
	}
	derived := map[ssa.Value]bool{}
	if accPhi != nil {
		derived[accPhi] = true
	} else {
		derived[cell] = true
	}
	for _, in := range exit.Instrs {
		if _, dbg := in.(*ssa.DebugRef); dbg {
			continue
		}
		uses := false
		for _, op := range in.Operands(nil) {
			if *op != nil && derived[*op] {
				uses = true
			}
		}
		if !uses {
			continue
		}
		switch c := in.(type) {
		case *ssa.UnOp, *ssa.MakeInterface, *ssa.ChangeType:
			derived[in.(ssa.Value)] = true
		case *ssa.MakeClosure:
			derived[c] = true
		case *ssa.Call:
			f, ok := c.Common().Value.(*ssa.Function)
			if !ok {
				return false, fmt.Sprintf("the collected slice is used by %s before being sorted", in)
			}
			switch f.String() {
			case "sort.Strings", "sort.Ints", "sort.Float64s":
				return true, ""
			case "sort.Slice", "sort.SliceStable":
				if mc, ok := c.Common().Args[1].(*ssa.MakeClosure); ok && simpleLess(mc) {
					return true, ""
				}
				return false, "sort.Slice with a comparison that is not s[i] < s[j] on a basic element type"
			}
			return false, fmt.Sprintf("the collected slice is passed to %s before being sorted", f.String())
		default:
			return false, fmt.Sprintf("the collected slice is used by %s before being sorted", in)
		}
	}
	return false, "the collected slice is not sorted in the block that follows the loop"
}

// deadCollect: the loop only appends to a slice that is never read afterwards.
func deadCollect(fn *ssa.Function, header *ssa.BasicBlock, blocks map[int]bool) bool {
	if earlyExit(header, blocks, fn) {
		return false
	}
	var phis []*ssa.Phi
	for _, in := range header.Instrs {
		if p, ok := in.(*ssa.Phi); ok {
			phis = append(phis, p)
		}
	}
	for _, in := range loopEffects(blocks, fn) {
		st, ok := in.(*ssa.Store)
		if !ok {
			return false
		}
		base := st.Addr
		if ia, ok := base.(*ssa.IndexAddr); ok {
			base = ia.X
		}
		if a, ok := base.(*ssa.Alloc); !ok || !inLoop(blocks, a) {
			return false
		}
	}
	for _, p := range phis {
		for _, ref := range *p.Referrers() {
			if _, dbg := ref.(*ssa.DebugRef); dbg {
				continue
			}
			if !blocks[ref.Block().Index] {
				return false
			}
		}
	}
	return true
}

// determinismCheck: every range over a map in the state machine is order-independent, and the state machine uses
// no goroutines, select, wall-clock time, random numbers or environment.
func determinismCheck(l *Loaded, prop string) ([]*OblReport, []*FuncResult) {
	var reps []*OblReport
	var results []*FuncResult
	for _, site := range mapRangeSites(l) {
		pos := l.prog.Fset.Position(site.rng.Pos())
		var next *ssa.Next
		for _, ref := range *site.rng.Referrers() {
			if n, ok := ref.(*ssa.Next); ok {
				next = n
			}
		}
		name := fmt.Sprintf("%s/F/map-range/%s#%s", prop, shortFuncName(site.fn), rangeOrdinal(site))
		rep := &OblReport{Name: name, Kind: "map-order", Func: site.fn.String(), Solver: "syntactic", Line: pos.String()}
		if next == nil {
			rep.Status = "failed: range without Next"
			reps = append(reps, rep)
			continue
		}
		header := next.Block()
		blocks := findLoops(site.fn)[header.Index]
		if blocks == nil {
			rep.Status = "failed: range header is not a loop header"
			reps = append(reps, rep)
			continue
		}
		if ok, _ := sortedCollect(site.fn, header, blocks); ok {
			rep.Status = "discharged"
			rep.Kind = "map-order: keys collected and sorted before use"
			reps = append(reps, rep)
			continue
		}
		if deadCollect(site.fn, header, blocks) {
			rep.Status = "discharged"
			rep.Kind = "map-order: collected slice is never read"
			reps = append(reps, rep)
			continue
		}
		_, why := sortedCollect(site.fn, header, blocks)
		crep, obl, eng, cover := checkCommutes(l, site, prop)
		if obl == nil {
			crep.Status += " (not a sorted collection either: " + why + ")"
			reps = append(reps, crep)
			continue
		}
		results = append(results, &FuncResult{Func: site.fn.String(), e: eng, Obls: []*Obligation{obl, cover}})
	}
	reps = append(reps, nondetSources(l, prop)...)
	return reps, results
}

// rangeOrdinal: the ordinal of the map range within its function (stable under line shifts).
func rangeOrdinal(site rangeSite) string {
	n := 0
	for _, b := range site.fn.Blocks {
		for _, in := range b.Instrs {
			if r, ok := in.(*ssa.Range); ok {
				if _, isMap := r.X.Type().Underlying().(*types.Map); isMap {
					n++
					if r == site.rng {
						return fmt.Sprintf("maprange%d", n)
					}
				}
			}
		}
	}
	return "maprange?"
}

var nondetCalls = []string{"time.Now", "time.Since", "time.Until", "math/rand.", "crypto/rand.", "os.Getenv", "os.Hostname", "os.Getpid", "runtime.NumGoroutine", "runtime.NumCPU"}

func nondetSources(l *Loaded, prop string) []*OblReport {
	var reps []*OblReport
	for _, fn := range moduleFunctions(l) {
		if fn.Synthetic != "" {
			continue // package initialisers call the init of every import
		}
		var bad []string
		for _, b := range fn.Blocks {
			for _, in := range b.Instrs {
				switch c := in.(type) {
				case *ssa.Go:
					bad = append(bad, "go statement")
				case *ssa.Select:
					bad = append(bad, "select statement")
				case *ssa.Call:
					if f, ok := c.Common().Value.(*ssa.Function); ok {
						for _, p := range nondetCalls {
							if strings.HasPrefix(f.String(), p) {
								bad = append(bad, "call of "+f.String())
							}
						}
					}
				}
			}
		}
		if len(bad) > 0 {
			reps = append(reps, &OblReport{Name: fmt.Sprintf("%s/F/nondeterminism-source/%s", prop, shortFuncName(fn)), Kind: "nondeterminism-source", Func: fn.String(), Solver: "syntactic", Status: "failed: " + strings.Join(bad, "; "), Line: l.prog.Fset.Position(fn.Pos()).String()})
		}
	}
	reps = append(reps, &OblReport{Name: prop + "/F/nondeterminism-source/scan", Kind: "nondeterminism-source", Func: fmt.Sprintf("%d functions of module/x/mhub2 and module/x/oracle", len(moduleFunctions(l))), Solver: "syntactic", Status: "discharged"})
	return reps
}

// valEq: structural equality of two executor values as a term; ok=false when the values cannot be compared.
func valEq(a, b Val) (T, bool) {
	if a == nil && b == nil {
		return TTrue, true
	}
	if a == nil || b == nil {
		return TFalse, false
	}
	switch x := a.(type) {
	case T:
		y, ok := b.(T)
		if !ok || x.So != y.So {
			return TFalse, false
		}
		if x.S == y.S {
			return TTrue, true
		}
		return Eq(x, y), true
	case *StructV:
		y, ok := b.(*StructV)
		if !ok || len(x.F) != len(y.F) {
			return TFalse, false
		}
		var eqs []T
		for i := range x.F {
			t, ok := valEq(x.F[i], y.F[i])
			if !ok {
				return TFalse, false
			}
			eqs = append(eqs, t)
		}
		return And(eqs...), true
	case *ArrV:
		y, ok := b.(*ArrV)
		if !ok || len(x.Elems) != len(y.Elems) {
			return TFalse, false
		}
		var eqs []T
		for i := range x.Elems {
			t, ok := valEq(x.Elems[i], y.Elems[i])
			if !ok {
				return TFalse, false
			}
			eqs = append(eqs, t)
		}
		return And(eqs...), true
	case *SliceV:
		y, ok := b.(*SliceV)
		if !ok {
			return TFalse, false
		}
		if x.Back != y.Back {
			// different backing objects: equal only if both are empty (conservative)
			return And(Eq(x.Len, IntLit(0)), Eq(y.Len, IntLit(0))), true
		}
		return And(Eq(x.Off, y.Off), Eq(x.Len, y.Len)), true
	case *PtrV:
		y, ok := b.(*PtrV)
		if !ok {
			return TFalse, false
		}
		if x.Obj != y.Obj || len(x.Path) != len(y.Path) {
			return And(x.Nil, y.Nil), true
		}
		return Eq(x.Nil, y.Nil), true
	case *MapV:
		y, ok := b.(*MapV)
		return boolT(ok && x.Obj == y.Obj), ok
	case *ErrV:
		y, ok := b.(*ErrV)
		if !ok {
			return TFalse, false
		}
		return Eq(x.IsNil, y.IsNil), true
	case *IfaceV:
		y, ok := b.(*IfaceV)
		if !ok {
			return TFalse, false
		}
		if x.Typ != nil && y.Typ != nil && types.Identical(x.Typ, y.Typ) {
			return valEq(x.V, y.V)
		}
		if x.Typ == nil && y.Typ == nil {
			return Eq(x.Dyn, y.Dyn), true
		}
		return TFalse, false
	case *TupleV:
		y, ok := b.(*TupleV)
		if !ok || len(x.Vs) != len(y.Vs) {
			return TFalse, false
		}
		var eqs []T
		for i := range x.Vs {
			t, ok := valEq(x.Vs[i], y.Vs[i])
			if !ok {
				return TFalse, false
			}
			eqs = append(eqs, t)
		}
		return And(eqs...), true
	case NilV:
		_, ok := b.(NilV)
		return boolT(ok), ok
	}
	if a == b {
		return TTrue, true
	}
	switch a.(type) {
	case *CtxV, *OpaqueV, *ClosureV, *FuncV, *CommitV, *BuiltinV:
		// unmodelled values carry no state of their own
		return TTrue, true
	}
	return TFalse, false
}

func boolT(b bool) T {
	if b {
		return TTrue
	}
	return TFalse
}

// earlyExit: the loop can be left from a block other than its header (break or return inside the body).
func earlyExit(header *ssa.BasicBlock, blocks map[int]bool, fn *ssa.Function) bool {
	for _, b := range fn.Blocks {
		if !blocks[b.Index] || b == header {
			continue
		}
		for _, s := range b.Succs {
			if !blocks[s.Index] {
				return true
			}
		}
	}
	return false
}

// ---------------------------------------------------------------------------
// C15, layer F: the key families a function reads and writes, collected by executing it with every repository callee
// inlined and every loop cut at the invariant "true" (each loop body is explored once from arbitrary state).

func familyEffects(l *Loaded, fn *ssa.Function) (reads, writes map[string]bool, err string) {
	defer func() {
		if r := recover(); r != nil {
			if ee, ok := r.(execError); ok {
				err = ee.msg
			} else {
				err = fmt.Sprintf("engine panic: %v", r)
			}
		}
	}()
	e := NewEngine(l.prog)
	sp := &FuncSpec{Name: shortFuncName(fn), Loops: map[string]*LoopSpec{}, NoPanic: map[string]bool{}, Prop: "C15"}
	x := &Exec{e: e, specs: l.specs, root: sp, rootFn: fn, maxPaths: 20000, inlined: map[string]bool{}, byContract: map[string]bool{}, unmodelled: map[string]bool{}, oblCount: map[string]int{}, usedModels: map[string]string{}}
	x.quiet = 1
	x.effectsMode = true
	st := &State{Heap: map[int]Val{}, Worlds: map[int]map[string]T{0: {}}}
	x.initGhost(st)
	fr := &Frame{fn: fn, env: map[ssa.Value]Val{}, loops: map[int]*loopRun{}, spec: sp, loopSet: findLoops(fn)}
	for _, p := range fn.Params {
		fr.env[p] = x.havocValLike(st, x.tryZero(st, p.Type()), p.Name(), p.Type())
		fr.args = append(fr.args, fr.env[p])
	}
	st.Frames = []*Frame{fr}
	x.entry = st.clone()
	x.tryPath(func() { x.execBlock(st, fr, fn.Blocks[0], nil, func(*State, Val) {}) })
	return x.famReads, x.famWrites, ""
}

// derivedFamilies: inverse indexes that InitGenesis rebuilds from other exported families (the delegate-key registry
// writes the three indexes together: SetDelegateKeys and InitGenesis are their only writers).
var derivedFamilies = map[string][2]string{"OrchVal": {"ValExt", "ExtOrch"}}

// genesisCoverage: every key family of a module's store is read by its ExportGenesis and written by its InitGenesis.
func genesisCoverage(l *Loaded, prop string) []*OblReport {
	var reps []*OblReport
	for _, mod := range []struct{ name, pkg, store string }{{"mhub2", "/x/mhub2/keeper", "Store"}, {"oracle", "/x/oracle/keeper", "OStore"}} {
		var exp, imp *ssa.Function
		for _, sp := range l.spkgs {
			if sp != nil && strings.HasSuffix(sp.Pkg.Path(), mod.pkg) {
				exp, imp = sp.Func("ExportGenesis"), sp.Func("InitGenesis")
			}
		}
		if exp == nil || imp == nil {
			reps = append(reps, &OblReport{Name: fmt.Sprintf("%s/F/genesis/%s/functions", prop, mod.name), Kind: "genesis-coverage", Status: "failed: ExportGenesis / InitGenesis not found", Solver: "effects"})
			continue
		}
		er, _, eerr := familyEffects(l, exp)
		_, iw, ierr := familyEffects(l, imp)
		for _, f := range families {
			if f.Store != mod.store {
				continue
			}
			r1 := &OblReport{Name: fmt.Sprintf("%s/F/genesis/%s/exported/%s", prop, mod.name, f.Name), Kind: "genesis-coverage", Func: exp.String(), Solver: "effects", Status: "discharged"}
			if eerr != "" {
				r1.Status = "failed: ExportGenesis could not be analysed: " + eerr
			} else if src, isDerived := derivedFamilies[f.Name]; isDerived && er[src[0]] && er[src[1]] {
				r1.Kind = "genesis-coverage: an index derived from " + src[0] + " and " + src[1] + ", which are exported"
			} else if !er[f.Name] {
				r1.Status = fmt.Sprintf("failed: ExportGenesis never reads the %s entries (key prefix 0x%02x): they are lost on export", f.Name, f.Prefix)
			}
			r2 := &OblReport{Name: fmt.Sprintf("%s/F/genesis/%s/imported/%s", prop, mod.name, f.Name), Kind: "genesis-coverage", Func: imp.String(), Solver: "effects", Status: "discharged"}
			if ierr != "" {
				r2.Status = "failed: InitGenesis could not be analysed: " + ierr
			} else if !iw[f.Name] {
				r2.Status = fmt.Sprintf("failed: InitGenesis never writes the %s entries (key prefix 0x%02x): they cannot be restored", f.Name, f.Prefix)
			}
			reps = append(reps, r1, r2)
		}
	}
	return reps
}
