package main

// The per-property check: verify every function under contract for the property, discharge, report.

import (
	"os/exec"
	"encoding/json"
	"flag"
	"fmt"
	"os"
	"path/filepath"
	"sort"
	"strconv"
	"strings"
	"sync"
	"time"
)

type KnownFinding struct {
	Property   string `json:"property"`
	Obligation string `json:"obligation"` // obligation name (prefix match on the part before '~')
	What       string `json:"what"`
	Status     string `json:"status"` // "open" | "fixed"
	Commit     string `json:"commit,omitempty"`
}

type KnownFile struct {
	Findings []KnownFinding `json:"findings"`
	Fixed    []string       `json:"fixed"`
}

func loadKnown() *KnownFile {
	kf := &KnownFile{}
	data, err := os.ReadFile("/verif/known_findings.json")
	if err != nil {
		return kf
	}
	if err := json.Unmarshal(data, kf); err != nil {
		fmt.Fprintln(os.Stderr, "known_findings.json:", err)
		os.Exit(2)
	}
	return kf
}

func baseOblName(n string) string {
	if i := strings.Index(n, "~"); i >= 0 {
		return n[:i]
	}
	return n
}

func cmdCheck(argv []string) int {
	fs := flag.NewFlagSet("check", flag.ExitOnError)
	prop := fs.String("prop", "", "property id")
	tier := fs.String("tier", "quick", "quick|thorough")
	only := fs.String("only", "", "only functions whose name contains this")
	verbose := fs.Bool("v", false, "verbose")
	noEvidence := fs.Bool("no-evidence", false, "do not write evidence")
	writeHints := fs.Bool("write-hints", false, "record in /verif/solver_hints.json which back end decided each obligation that z3-new did not decide first (tool mode)")
	fs.Parse(argv)
	start := time.Now()
	seed := 0
	if s := os.Getenv("VERIF_SEED"); s != "" {
		seed, _ = strconv.Atoi(s)
	}
	timeout := 40
	if *tier == "thorough" {
		timeout = 180
		crossCheck = true
	}
	outDir = filepath.Join(outRoot, *prop)
	os.RemoveAll(outDir)
	os.MkdirAll(outDir, 0o755)

	var l *Loaded
	var err error
	if *prop == "C20" {
		// the connector's go.mod replaces the module with a path outside /repo: load it with a rewritten modfile
		mf, merr := connectorModfile()
		if merr != nil {
			fmt.Fprintln(os.Stderr, "load error:", merr)
			return 2
		}
		l, err = loadModule(repoRoot+"/minter-connector", []string{"./command/...", "./context/...", "./minter/..."}, nil, mf)
	} else {
		l, err = loadModule(repoRoot+"/module", []string{"./x/mhub2/...", "./x/oracle/..."}, nil, "")
	}
	if err != nil {
		fmt.Fprintln(os.Stderr, "load error:", err)
		return 2
	}
	// every contract must bind to a function of the current tree (a renamed or removed function is an engine
	// error, not a verdict)
	for _, sp := range l.specs.all {
		if l.findFunc(sp) == nil {
			fmt.Fprintf(os.Stderr, "ENGINE ERROR: contract does not bind: %s.%s (%s)\n", sp.Pkg, sp.Name, sp.File)
			return 2
		}
	}
	specs := l.specs.funcsFor(*prop)
	if *only != "" {
		var f []*FuncSpec
		for _, s := range specs {
			if strings.Contains(s.Name, *only) {
				f = append(f, s)
			}
		}
		specs = f
	}
	nLem := 0
	for _, lm := range l.specs.lemmas {
		for _, p := range lm.Props {
			if p == *prop && (*only == "" || strings.Contains(lm.Name, *only)) {
				nLem++
			}
		}
	}
	if len(specs) == 0 && nLem == 0 && *prop != "C06" && *prop != "C15" {
		fmt.Fprintf(os.Stderr, "no functions under contract for property %s\n", *prop)
		return 2
	}
	results := make([]*FuncResult, len(specs))
	var wg sync.WaitGroup
	sem := make(chan struct{}, 8)
	for i, sp := range specs {
		i, sp := i, sp
		wg.Add(1)
		go func() {
			defer wg.Done()
			sem <- struct{}{}
			defer func() { <-sem }()
			results[i] = verifyFunc(l, sp, *prop)
		}()
	}
	wg.Wait()
	var extraReps []*OblReport
	if *prop == "C07" && *only == "" {
		sr, err := solGuard(l, *prop)
		if err != nil {
			fmt.Fprintln(os.Stderr, "ENGINE ERROR: solidity guard:", err)
			return 2
		}
		extraReps = sr
	}
	if (*prop == "C02" || *prop == "C03" || *prop == "C11" || *prop == "C01") && *only == "" {
		extraReps = append(extraReps, bindCheck(l, *prop, "/x/mhub2/keeper", "ExternalEventProcessor", "ExternalEventProcessor"))
	}
	if *prop == "C18" && *only == "" {
		extraReps = append(extraReps, bindCheck(l, *prop, "/x/oracle/keeper", "AttestationHandler", "AttestationHandler"))
	}
	if *prop != "C20" && *prop != "C14" && *prop != "C07" && *only == "" {
		// every check that reasons about the store relies on the key-family table
		extraReps = append(extraReps, keyTableCheck(l, *prop, *prop == "C18" || *prop == "C15" || *prop == "C06")...)
	}
	if *only == "" {
		extraReps = append(extraReps, writerSetCheck(l, *prop)...)
	}
	if *prop == "C15" && *only == "" {
		extraReps = append(extraReps, genesisCoverage(l, *prop)...)
	}
	if *prop == "C06" && *only == "" {
		dr, dres := determinismCheck(l, *prop)
		extraReps = append(extraReps, dr...)
		results = append(results, dres...)
	}
	if *prop == "C05" && *only == "" {
		extraReps = append(extraReps, typestateCheck(l, *prop)...)
	}
	if (*prop == "C05" || *prop == "C11" || *prop == "C12" || *prop == "C01" || *prop == "C04") && *only == "" {
		// the bank model's "BurnCoins fails only for insufficient funds" presupposes the module account's permissions
		extraReps = append(extraReps, maccPermsCheck(*prop))
	}
	known := loadKnown()
	shortFor := map[string]bool{}
	for _, kf := range known.Findings {
		if kf.Status == "open" && kf.Property == *prop {
			shortFor[kf.Obligation] = true
		}
	}
	// standalone lemmas (raw SMT over the prelude)
	var lemmaRes *FuncResult
	for _, lm := range l.specs.lemmas {
		has := false
		for _, p := range lm.Props {
			if p == *prop {
				has = true
			}
		}
		if !has || (*only != "" && !strings.Contains(lm.Name, *only)) {
			continue
		}
		if lemmaRes == nil {
			lemmaRes = &FuncResult{Func: "lemmas", e: NewEngine(l.prog)}
			results = append(results, lemmaRes)
		}
		lemmaRes.Obls = append(lemmaRes.Obls, &Obligation{Name: *prop + "/L2/lemma/" + lm.Name, Kind: "lemma", Func: "lemma " + lm.Name, Expect: "unsat", Goal: TFalse, Hyps: []T{{S: "true", So: SBool}}, RawSMT: lm.Body})
	}
	tExec := time.Since(start).Seconds()
	reps := discharge(results, timeout, shortFor)
	if *writeHints {
		hints := loadHints()
		for k := range hints {
			if strings.HasPrefix(k, *prop+"/") {
				delete(hints, k)
			}
		}
		for _, rep := range reps {
			sv := strings.TrimSuffix(rep.Solver, "/qf")
			if rep.Status == "discharged" && (sv == "z3" || sv == "cvc5") {
				hints[rep.Name] = sv
			}
		}
		if b, err := json.MarshalIndent(hints, "", " "); err == nil {
			os.WriteFile("/verif/solver_hints.json", b, 0o644)
		}
	}
	reps = append(reps, extraReps...)
	tSolve := time.Since(start).Seconds() - tExec
	defer func() { fmt.Fprintf(os.Stderr, "timing: load+exec %.1fs, discharge %.1fs\n", tExec, tSolve) }()

	violations := 0
	var failed []*OblReport
	nObl, nDis := 0, 0
	engineErr := false
	for _, r := range results {
		if r.Err != "" {
			// a function under contract that cannot be executed symbolically has lost its proof
			name := fmt.Sprintf("%s/L1/%s/reach", *prop, specShort(r.Func))
			reps = append(reps, &OblReport{Name: name, Kind: "reach", Func: r.Func, Status: "failed: " + r.Err})
			// a contract clause that no longer resolves in the function's current shape (a loop invariant naming a
			// local that the loop of that ordinal does not have any more) means the proof is lost, like any other
			// undischarged obligation: it is reported as a failed reach obligation, not as an engine error
			if strings.Contains(r.Err, "contract does not bind") || strings.Contains(r.Err, "engine panic") || (strings.Contains(r.Err, "contract expression") && !strings.Contains(r.Err, "unknown identifier")) {
				fmt.Fprintf(os.Stderr, "ENGINE ERROR %s: %s\n", r.Func, r.Err)
				engineErr = true
			}
		}
	}
	byName := map[string]*Obligation{}
	for _, r := range results {
		for _, o := range r.Obls {
			byName[o.Name] = o
		}
	}
	for _, rep := range reps {
		nObl++
		if rep.Status == "discharged" {
			nDis++
			continue
		}
		failed = append(failed, rep)
	}
	if engineErr {
		return 2
	}
	var knownHit []string
	reported := map[string]bool{}
	for _, rep := range failed {
		isKnown := false
		for _, kf := range known.Findings {
			if kf.Status == "open" && kf.Property == *prop && kf.Obligation == baseOblName(rep.Name) {
				isKnown = true
				msg := fmt.Sprintf("KNOWN-FINDING: property=%s %s [%s]", *prop, kf.What, kf.Obligation)
				dup := false
				for _, k := range knownHit {
					if k == msg {
						dup = true
					}
				}
				if !dup {
					knownHit = append(knownHit, msg)
					fmt.Println(msg)
				}
			}
		}
		if isKnown {
			if *tier == "thorough" && !reported["kf:"+baseOblName(rep.Name)] {
				// thorough tier: the listed finding must still reproduce on the real code
				reported["kf:"+baseOblName(rep.Name)] = true
				if rr := tryReplay(*prop, rep, byName[rep.Name]); rr.Ran && !rr.Confirmed {
					fmt.Printf("NOTE: known finding %s did not reproduce in its replay on the real code (stale entry in known_findings.json?)\n", baseOblName(rep.Name))
				} else if rr.Ran {
					fmt.Printf("NOTE: known finding %s reproduced on the real code\n", baseOblName(rep.Name))
				}
			}
			rep.Status = "known-finding(" + rep.Status + ")"
			continue
		}
		violations++
		if reported[baseOblName(rep.Name)] {
			continue // one VIOLATION line per obligation; the other failing paths are listed in the evidence
		}
		reported[baseOblName(rep.Name)] = true
		rr := tryReplay(*prop, rep, byName[rep.Name])
		replay := writeReplay(*prop, rep, byName[rep.Name], rr)
		suffix := ""
		if !rr.Confirmed {
			suffix = " no-failing-input-found"
		}
		fmt.Printf("VIOLATION property=%s replay=%s obligation=%s status=%s%s\n", *prop, replay, rep.Name, rep.Status, suffix)
	}
	if *prop == "C20" && *only == "" {
		bv, bk := boundedCursor(*tier, known)
		violations += bv
		knownHit = append(knownHit, bk...)
	}
	if *verbose {
		for _, rep := range reps {
			fmt.Printf("  %-14s %-8s %6.2fs %s\n", rep.Status, rep.Solver, rep.Secs, rep.Name)
		}
		for _, r := range results {
			fmt.Printf("func %s: %d instrs, %d paths, %d obligations, %.2fs %s\n", r.Func, r.Instrs, r.Paths, len(r.Obls), r.Secs, r.Err)
		}
	}
	if !*noEvidence {
		nKnown := 0
		for _, rep := range reps {
			if strings.HasPrefix(rep.Status, "known-finding") {
				nKnown++
			}
		}
		writeEvidence(*prop, *tier, seed, results, reps, nObl-nKnown, nDis, violations, knownHit, time.Since(start).Seconds(), nKnown)
	}
	fmt.Printf("property %s: %d obligations, %d discharged, %d violations, %d known findings, %.1fs\n", *prop, nObl, nDis, violations, len(knownHit), time.Since(start).Seconds())
	if violations > 0 {
		return 1
	}
	return 0
}

// connectorModfile writes a copy of minter-connector/go.mod whose replace directive points at /repo/module.
func connectorModfile() (string, error) {
	dir := outRoot + "/connector-mod"
	os.MkdirAll(dir, 0o755)
	data, err := os.ReadFile(repoRoot + "/minter-connector/go.mod")
	if err != nil {
		return "", err
	}
	var out []string
	for _, ln := range strings.Split(string(data), "\n") {
		if strings.HasPrefix(strings.TrimSpace(ln), "replace github.com/MinterTeam/mhub2/module") {
			ln = "replace github.com/MinterTeam/mhub2/module => " + repoRoot + "/module"
		}
		out = append(out, ln)
	}
	if err := os.WriteFile(filepath.Join(dir, "go.mod"), []byte(strings.Join(out, "\n")), 0o644); err != nil {
		return "", err
	}
	sum, err := os.ReadFile(repoRoot + "/minter-connector/go.sum")
	if err != nil {
		return "", err
	}
	if err := os.WriteFile(filepath.Join(dir, "go.sum"), sum, 0o644); err != nil {
		return "", err
	}
	return filepath.Join(dir, "go.mod"), nil
}

func specShort(full string) string {
	if i := strings.LastIndex(full, "/"); i >= 0 {
		full = full[i+1:]
	}
	return full
}


// writeReplay writes the replay file of a failed obligation: the obligation, solver output, model and SMT script.
func writeReplay(prop string, rep *OblReport, o *Obligation, rr *replayResult) string {
	dir := filepath.Join(outRoot, prop, "replay")
	os.MkdirAll(dir, 0o755)
	safe := strings.NewReplacer("/", "_", "(", "", ")", "", "*", "", "$", "_", "@", "_", ":", "_", "~", "-", " ", "_").Replace(rep.Name)
	if len(safe) > 160 {
		safe = safe[:160]
	}
	path := filepath.Join(dir, safe+".txt")
	var sb strings.Builder
	fmt.Fprintf(&sb, "failed obligation: %s\nkind: %s\nfunction: %s\ncontract line: %s\nstatus: %s\n", rep.Name, rep.Kind, rep.Func, rep.Line, rep.Status)
	if rr != nil && rr.Ran {
		fmt.Fprintf(&sb, "replay on the real code: confirmed=%v test=%s\n--- go test output ---\n%s\n", rr.Confirmed, rr.TestFile, rr.Output)
	} else {
		fmt.Fprintf(&sb, "replay on the real code: no replay template for this obligation (no-failing-input-found)\n")
	}
	if o != nil {
		fmt.Fprintf(&sb, "goal: %s\n", o.Goal.S)
		if o.Result != nil {
			fmt.Fprintf(&sb, "solver: %s (%.2fs) answered %s\n", o.Result.Solver, o.Result.Secs, o.Result.Status)
			if o.Result.Model != "" {
				fmt.Fprintf(&sb, "--- counter-model (solver output) ---\n%s\n", trimModel(o.Result.Model))
			} else {
				fmt.Fprintf(&sb, "--- solver output ---\n%s\n", o.Result.Raw)
			}
		}
		fmt.Fprintf(&sb, "--- path condition ---\n")
		for _, h := range o.Hyps {
			if len(h.S) < 600 {
				fmt.Fprintf(&sb, "%s\n", h.S)
			} else {
				fmt.Fprintf(&sb, "%s ...\n", h.S[:600])
			}
		}
	}
	os.WriteFile(path, []byte(sb.String()), 0o644)
	return path
}

func trimModel(m string) string {
	lines := strings.Split(m, "\n")
	if len(lines) > 400 {
		lines = append(lines[:400], "... (truncated)")
	}
	return strings.Join(lines, "\n")
}

func writeEvidence(prop, tier string, seed int, results []*FuncResult, reps []*OblReport, nObl, nDis, violations int, known []string, wall float64, nKnown int) {
	os.MkdirAll("/verif/evidence", 0o755)
	type fnEv struct {
		*FuncResult
		Obligations int `json:"obligations"`
	}
	var fns []fnEv
	assumptions := map[string]bool{}
	models := map[string]string{}
	solverTime := 0.0
	bySolver := map[string]int{}
	for _, r := range results {
		fns = append(fns, fnEv{r, len(r.Obls)})
		for _, a := range r.Assumptions {
			assumptions[a] = true
		}
		if r.e != nil {
			r.e.axiomMu.Lock()
			for n := range r.e.axiomUsed {
				assumptions[n] = true
			}
			r.e.axiomMu.Unlock()
		}
		for k, v := range r.Models {
			models[k] = v
		}
	}
	for _, rep := range reps {
		solverTime += rep.Secs
		if rep.Status == "discharged" {
			bySolver[rep.Solver]++
		}
	}
	var as []string
	for a := range assumptions {
		as = append(as, a)
	}
	sort.Strings(as)
	var trusted []string
	trusted = append(trusted, "govc: go/packages + go/ssa lowering and this engine's SMT encoding (tested by the must-fail corpus /verif/selftest)")
	trusted = append(trusted, "solvers z3 4.8.12, z3-new 5.1.0, cvc5 1.0.3")
	var mk []string
	for k := range models {
		mk = append(mk, k)
	}
	sort.Strings(mk)
	for _, k := range mk {
		trusted = append(trusted, "assumed library contract "+k+": "+models[k])
	}
	var samples []interface{}
	for i, rep := range reps {
		if i%max(1, len(reps)/8) == 0 {
			samples = append(samples, rep)
		}
	}
	level := "proof"
	ev := map[string]interface{}{
		"property_id": prop,
		"tier":        tier,
		"seed":        seed,
		"level":       level,
		"wall_s":      wall,
		"violations":  violations,
		"assumptions": as,
		"coverage": map[string]interface{}{
			"obligations":              nObl,
			"discharged":               nDis,
			"checker_cmd":              fmt.Sprintf("/verif/bin/check %s %s", prop, tier),
			"explanation":              fmt.Sprintf("%d obligations were generated from the current working tree of /repo for %d functions under contract (one SMT query per contract clause and path; layer F obligations are decided over SSA); %d discharged; obligations listed in known_findings.json (%d) are reported as KNOWN-FINDING and excluded from both counts; vacuity guards (cover/requires, cover/return, /cover) are obligations too", nObl, len(fns), nDis, nKnown),
			"trusted_base":             trusted,
			"functions_under_contract": fns,
			"obligation_list":          reps,
			"discharged_by_backend":    bySolver,
			"solver_time_s":            solverTime,
			"known_findings_printed":   known,
			"known_finding_obligations_excluded_from_the_count": nKnown,
			"bounded_stand_ins":        boundedInfo,
			"samples":                  samples,
		},
	}
	data, _ := json.MarshalIndent(ev, "", " ")
	os.WriteFile(filepath.Join("/verif/evidence", prop+".json"), data, 0o644)
}

func max(a, b int) int {
	if a > b {
		return a
	}
	return b
}

// boundedInfo: what the bounded stand-ins of this run covered (evidence; never part of the obligation counts).
var boundedInfo interface{} = []interface{}{}

// boundedCursor runs the BOUNDED stand-in for the part of C20 outside the engine's reach: the Minter connector's
// block scan (GetLatestMinterBlockAndNonce) is executed on the real code, with a fake Minter API, for every block
// history up to a stated size, every consistent persisted cursor and every acknowledged hub nonce; the cursor it
// returns and persists must be consistent. Its result is reported separately from the proof obligations.
func boundedCursor(tier string, known *KnownFile) (violations int, knownLines []string) {
	const name = "C20/B/GetLatestMinterBlockAndNonce/cursor-consistent"
	blocks := "4"
	if tier == "thorough" {
		blocks = "7"
	}
	info := map[string]interface{}{"name": name, "kind": "bounded (exhaustive enumeration of a finite space on the real code; NOT a proof, not counted in obligations/discharged)",
		"bound": "(a) block histories of 1.." + blocks + " blocks with 0..2 bridge events per block, every block boundary as persisted cursor; (b) histories of 150, 250 and 305 blocks (the scan pages by 100) with one bridge event at up to two of the heights 1, 99, 100, 101, 199, 200, 201, 250, 300 and persisted cursors 0, 100, 120; in both families every acknowledged hub nonce 0..first+total; (c) every prefix of one persisted status document as the status file found at restart; (d) one injected Minter API error on the first and on the second page of a 150-block history; bridge events are batches (multisends from the multisig), well-formed deposits and multisig edits, assigned to the events in three rotations; every block also holds a malformed deposit and a foreign multisend that must not be counted"}
	boundedInfo = []interface{}{info}
	fail := func(msg string) (int, []string) {
		info["result"] = "not run: " + msg
		fmt.Fprintln(os.Stderr, "ENGINE ERROR bounded cursor check:", msg)
		fmt.Printf("VIOLATION property=C20 replay=/verif/bounded/c20_cursor_test.go.tmpl obligation=%s status=bounded-check-did-not-run no-failing-input-found\n", name)
		return 1, nil
	}
	mf, err := connectorModfile()
	if err != nil {
		return fail(err.Error())
	}
	dir := outRoot + "/bounded"
	os.MkdirAll(dir, 0o755)
	src, err := os.ReadFile("/verif/bounded/c20_cursor_test.go.tmpl")
	if err != nil {
		return fail(err.Error())
	}
	testFile := filepath.Join(dir, "c20_cursor_test.go")
	os.WriteFile(testFile, src, 0o644)
	target := filepath.Join(repoRoot, "minter-connector", "minter", "zz_bounded_cursor_test.go")
	ov, _ := json.Marshal(map[string]map[string]string{"Replace": {target: testFile}})
	ovFile := filepath.Join(dir, "overlay.json")
	os.WriteFile(ovFile, ov, 0o644)
	cmd := exec.Command("go", "test", "-modfile="+mf, "-overlay", ovFile, "-vet=off", "-count=1", "-timeout", "900s", "-v", "-run", "TestBoundedCursor", "./minter/")
	cmd.Dir = filepath.Join(repoRoot, "minter-connector")
	cmd.Env = append(os.Environ(), "GOFLAGS=-mod=mod", "GOPROXY=off", "GOSUMDB=off", "GOTOOLCHAIN=local", "GOVC_BOUNDED_BLOCKS="+blocks)
	out, _ := cmd.CombinedOutput()
	var res struct {
		Cases        int                        `json:"cases"`
		Nontrivial   int                        `json:"nontrivial"`
		Inconsistent int                        `json:"inconsistent"`
		Classes      map[string]int             `json:"classes"`
		First        map[string]json.RawMessage `json:"first_of_class"`
		Sample       json.RawMessage            `json:"sample"`
	}
	found := false
	for _, ln := range strings.Split(string(out), "\n") {
		if i := strings.Index(ln, "BOUNDED-RESULT "); i >= 0 {
			if json.Unmarshal([]byte(ln[i+len("BOUNDED-RESULT "):]), &res) == nil {
				found = true
			}
		}
	}
	if !found {
		tail := string(out)
		if len(tail) > 600 {
			tail = tail[len(tail)-600:]
		}
		return fail("no result line; output ends: " + tail)
	}
	info["cases"], info["nontrivial"], info["inconsistent"], info["classes"], info["sample"] = res.Cases, res.Nontrivial, res.Inconsistent, res.Classes, res.Sample
	info["exhaustive_within_bound"] = true
	var cls []string
	for c := range res.Classes {
		cls = append(cls, c)
	}
	sort.Strings(cls)
	for _, c := range cls {
		obl := name + "@" + c
		isKnown := false
		for _, kf := range known.Findings {
			if kf.Status == "open" && kf.Property == "C20" && kf.Obligation == obl {
				isKnown = true
				msg := fmt.Sprintf("KNOWN-FINDING: property=C20 %s [%s]", kf.What, kf.Obligation)
				fmt.Println(msg)
				knownLines = append(knownLines, msg)
			}
		}
		if isKnown {
			continue
		}
		violations++
		rdir := filepath.Join(outRoot, "C20", "replay")
		os.MkdirAll(rdir, 0o755)
		rp := filepath.Join(rdir, "C20_B_cursor-consistent_"+c+".txt")
		os.WriteFile(rp, []byte(fmt.Sprintf("failed bounded check: %s\nclass: %s (%d of %d cases)\nfirst failing case (input replayed on the real GetLatestMinterBlockAndNonce with a fake Minter API):\n%s\nre-run: the test /verif/bounded/c20_cursor_test.go.tmpl injected into minter-connector/minter with go test -overlay (see govc/check.go boundedCursor)\n", obl, c, res.Classes[c], res.Cases, string(res.First[c]))), 0o644)
		fmt.Printf("VIOLATION property=C20 replay=%s obligation=%s status=bounded-counterexample\n", rp, obl)
	}
	info["result"] = fmt.Sprintf("%d of %d cases inconsistent", res.Inconsistent, res.Cases)
	fmt.Printf("bounded C20 cursor check (NOT a proof): %d cases (%d with events to scan), %d inconsistent %v\n", res.Cases, res.Nontrivial, res.Inconsistent, res.Classes)
	return violations, knownLines
}
