package main

// Models of the SDK store, codec and keeper interfaces (assumed contracts).

import (
	"go/token"
	"fmt"
	"go/types"
	"strings"
)

const mhubTypes = "github.com/MinterTeam/mhub2/module/x/mhub2/types."
const kvIface = "iface:github.com/cosmos/cosmos-sdk/store/types.KVStore."
const kvIface2 = "iface:github.com/cosmos/cosmos-sdk/types.KVStore."
const iterIface = "iface:github.com/cosmos/cosmos-sdk/store/types.Iterator."
const iterIface2 = "iface:github.com/tendermint/tm-db.Iterator."
const codecIface = "iface:github.com/cosmos/cosmos-sdk/codec.Codec."
const codecIface2 = "iface:github.com/cosmos/cosmos-sdk/codec.BinaryCodec."

func ghostModuleAddr() T { return StrLit("module:mhub2") }

func init() {
	// ---- KVStore ---------------------------------------------------------------------------------------
	for _, pre := range []string{kvIface, kvIface2, "opaque:kvstore."} {
		regI(pre+"Get", "value stored under the key or nil; keys are classified into key families by their byte layout", func(x *Exec, st *State, ci *callInfo, recv Val, a []Val) Val {
			return x.storeGet(st, x.storeOf(recv), tt(a[0]))
		})
		regI(pre+"Has", "key present", func(x *Exec, st *State, ci *callInfo, recv Val, a []Val) Val {
			return x.storeHas(st, x.storeOf(recv), tt(a[0]))
		})
		regI(pre+"Set", "store[key] = value; panics on nil value not modelled", func(x *Exec, st *State, ci *callInfo, recv Val, a []Val) Val {
			x.storeSet(st, x.storeOf(recv), tt(a[0]), tt(a[1]))
			return nil
		})
		regI(pre+"Delete", "delete store[key]", func(x *Exec, st *State, ci *callInfo, recv Val, a []Val) Val {
			x.storeDelete(st, x.storeOf(recv), tt(a[0]))
			return nil
		})
		regI(pre+"Iterator", "ascending iterator over a snapshot of the (prefix) store", func(x *Exec, st *State, ci *callInfo, recv Val, a []Val) Val {
			if h, ok := x.prefixRangeHandle(st, recv, a); ok {
				return x.newIterator(st, h, false, "")
			}
			x.iterBounds(st, a)
			return x.newIterator(st, x.storeOf(recv), false, "")
		})
		regI(pre+"ReverseIterator", "descending iterator over a snapshot of the (prefix) store", func(x *Exec, st *State, ci *callInfo, recv Val, a []Val) Val {
			x.iterBounds(st, a)
			return x.newIterator(st, x.storeOf(recv), true, "")
		})
	}
	prefixNew := func(x *Exec, st *State, ci *callInfo, a []Val) Val {
		base := a[0].(*OpaqueV)
		d := map[string]Val{}
		for k, v := range base.Data {
			d[k] = v
		}
		p := tt(a[1])
		if old, ok := d["prefix"]; ok {
			p = Concat(old.(T), p)
		}
		d["prefix"] = p
		return &OpaqueV{Tag: "kvstore", Data: d}
	}
	reg("github.com/cosmos/cosmos-sdk/store/prefix.NewStore", "prefix view of a store", prefixNew)
	for _, m := range []string{"Get", "Has", "Set", "Delete", "Iterator", "ReverseIterator"} {
		m := m
		libModels["(github.com/cosmos/cosmos-sdk/store/prefix.Store)."+m] = func(x *Exec, st *State, ci *callInfo, args []Val, k func(*State, Val)) {
			ifaceModels[kvIface+m](x, st, ci, args[0], args[1:], k)
		}
	}
	for _, pre := range []string{iterIface, iterIface2, "opaque:iter."} {
		regI(pre+"Valid", "position < length", func(x *Exec, st *State, ci *callInfo, recv Val, a []Val) Val {
			it := recv.(*OpaqueV)
			pos, _ := x.iterPos(st, it)
			return Lt(pos, it.Data["n"].(T))
		})
		regI(pre+"Next", "position + 1", func(x *Exec, st *State, ci *callInfo, recv Val, a []Val) Val {
			it := recv.(*OpaqueV)
			pos, obj := x.iterPos(st, it)
			x.panicIf(st, Ge(pos, it.Data["n"].(T)), "iterator-Next-invalid", ci.pos)
			st.Heap[obj] = Add(pos, IntLit(1))
			if st.Written != nil {
				st.Written[obj] = true
			}
			return nil
		})
		regI(pre+"Close", "no effect on modelled state", func(x *Exec, st *State, ci *callInfo, recv Val, a []Val) Val { return &ErrV{IsNil: TTrue} })
		regI(pre+"Value", "value of the current key in the snapshot", func(x *Exec, st *State, ci *callInfo, recv Val, a []Val) Val {
			it := recv.(*OpaqueV)
			pos, _ := x.iterPos(st, it)
			x.panicIf(st, Ge(pos, it.Data["n"].(T)), "iterator-Value-invalid", ci.pos)
			k := x.iterCurKey(st, it)
			return T{S: fmt.Sprintf("(someval (select %s %s))", it.Data["snap"].(T).S, k.S), So: SString}
		})
		regI(pre+"Key", "suffix of the current key after the iterator's prefix (only single remaining segments are modelled)", func(x *Exec, st *State, ci *callInfo, recv Val, a []Val) Val {
			it := recv.(*OpaqueV)
			pos, _ := x.iterPos(st, it)
			x.panicIf(st, Ge(pos, it.Data["n"].(T)), "iterator-Key-invalid", ci.pos)
			k := x.iterCurKey(st, it)
			famN, ok := it.Data["fam"]
			if !ok {
				// whole-store scan: raw key bytes via keybytes()
				x.e.declareFun("keybytes", "(Key) String")
				x.e.keybytesAxioms(it.Data["name"].(T).S)
				return app(SString, "keybytes", k)
			}
			fam := familyByName[famN.(T).S]
			nf := int(mustLit(it.Data["nfixed"].(T)))
			if nf == len(fam.Segs)-1 && fam.Segs[nf] == "str" {
				return T{S: fmt.Sprintf("(K_%s_%d %s)", fam.Name, nf, k.S), So: SString}
			}
			x.e.declareFun("keysuffix", "(Key Int) String")
			return app(SString, "keysuffix", k, IntLit(int64(nf)))
		})
	}

	// ---- codec -----------------------------------------------------------------------------------------
	for _, pre := range []string{codecIface, codecIface2, "opaque:codec."} {
		regI(pre+"MustMarshal", "mar_T(value) (injective via round trip axiom)", func(x *Exec, st *State, ci *callInfo, recv Val, a []Val) Val {
			return x.marshalVal(st, a[0])
		})
		regI(pre+"MustUnmarshal", "*ptr = unm_T(bytes) (decoding errors on bytes written by MustMarshal are assumed away)", func(x *Exec, st *State, ci *callInfo, recv Val, a []Val) Val {
			x.unmarshalInto(st, tt(a[0]), a[1], ci)
			return nil
		})
		regI(pre+"Unmarshal", "*ptr = unm_T(bytes); err == nil", func(x *Exec, st *State, ci *callInfo, recv Val, a []Val) Val {
			x.unmarshalInto(st, tt(a[0]), a[1], ci)
			return &ErrV{IsNil: TTrue}
		})
		regI(pre+"UnmarshalInterface", "empty bytes leave the target nil; otherwise *ptr = unm_Dyn(bytes); err == nil", func(x *Exec, st *State, ci *callInfo, recv Val, a []Val) Val {
			bz := tt(a[0])
			_, unm := x.e.marshalDyn()
			var p *PtrV
			if iv, ok := a[1].(*IfaceV); ok {
				p = iv.V.(*PtrV)
			} else {
				p = a[1].(*PtrV)
			}
			d := Ite(Eq(StrLen(bz), IntLit(0)), T{S: "dyn_nil", So: "Dyn"}, app("Dyn", unm, bz))
			x.storeTo(st, p, &IfaceV{Sym: true, Dyn: d}, nil, ci.pos)
			return &ErrV{IsNil: TTrue}
		})
		regI(pre+"UnpackAny", "*ptr = value packed in the Any; err == nil (registered types)", func(x *Exec, st *State, ci *callInfo, recv Val, a []Val) Val {
			d := x.anyDyn(st, a[0])
			iv := a[1].(*IfaceV)
			p := iv.V.(*PtrV)
			x.storeTo(st, p, &IfaceV{Sym: true, Dyn: d}, nil, ci.pos)
			return &ErrV{IsNil: TTrue}
		})
	}
	reg("github.com/cosmos/cosmos-sdk/codec/types.NewAnyWithValue", "Any holding the value; err == nil for non-nil proto messages", func(x *Exec, st *State, ci *callInfo, a []Val) Val {
		var d T
		switch v := a[0].(type) {
		case *IfaceV:
			d = x.e.ifaceDyn(st, v)
		default:
			x.fail("NewAnyWithValue of %T", a[0])
		}
		o := x.e.newObj(st, &OpaqueV{Tag: "any", Data: map[string]Val{"dyn": d}})
		return &TupleV{Vs: []Val{&PtrV{Nil: TFalse, Obj: o}, &ErrV{IsNil: TTrue}}}
	})
	reg("(*github.com/cosmos/cosmos-sdk/codec/types.Any).GetCachedValue", "the packed value", func(x *Exec, st *State, ci *callInfo, a []Val) Val {
		return &IfaceV{Sym: true, Dyn: x.anyDyn(st, a[0])}
	})

	// ---- params ----------------------------------------------------------------------------------------
	reg("(github.com/cosmos/cosmos-sdk/x/params/types.Subspace).Get", "*ptr = params[key] (ghost Params map, constant within a run)", func(x *Exec, st *State, ci *callInfo, a []Val) Val {
		key := tt(a[2])
		iv := a[3].(*IfaceV)
		p := iv.V.(*PtrV)
		et := iv.Typ.(*types.Pointer).Elem()
		so := x.e.sortOf(et)
		fn := "param_" + mangle(so)
		x.e.declareFun(fn, "(String) "+so)
		v := app(so, fn, key)
		if r := intRange(v, et); r.S != "true" {
			st.assume(r, "param range")
		}
		x.storeTo(st, p, x.e.reflect(st, v, et), et, ci.pos)
		return nil
	})
	reg("(github.com/cosmos/cosmos-sdk/x/params/types.Subspace).SetParamSet", "writes the module Params to the params store (a separate store that is not modelled: the write is ignored)", func(x *Exec, st *State, ci *callInfo, a []Val) Val {
		return nil
	})
	reg("(github.com/cosmos/cosmos-sdk/x/params/types.Subspace).GetParamSet", "*ptr = the module Params (ghost constant)", func(x *Exec, st *State, ci *callInfo, a []Val) Val {
		iv := a[2].(*IfaceV)
		p := iv.V.(*PtrV)
		et := iv.Typ.(*types.Pointer).Elem()
		so := x.e.sortOf(et)
		name := "params_" + mangle(so)
		x.e.declareFun(name, "() "+so)
		pv := x.e.reflect(st, T{S: name, So: so}, et)
		// machine ranges of the integer parameters
		if sv, ok := pv.(*StructV); ok {
			u := et.Underlying().(*types.Struct)
			for i := 0; i < u.NumFields(); i++ {
				if t, ok := sv.F[i].(T); ok {
					if r := intRange(t, u.Field(i).Type()); r.S != "true" {
						st.assume(r, "param range")
					}
				}
			}
		}
		x.storeTo(st, p, pv, et, ci.pos)
		return nil
	})

	// ---- bank keeper (ghost: Supply[denom], Bal[addr][denom]) -------------------------------------------
	bk := "iface:" + mhubTypes + "BankKeeper."
	regI(bk+"GetSupply", "Coin{denom, Supply[denom]}", func(x *Exec, st *State, ci *callInfo, recv Val, a []Val) Val {
		w := a[0].(*CtxV).World
		d := tt(a[1])
		return x.mkCoin(ci, d, sel1(st.Worlds[w]["Supply"], d))
	})
	ifaceModels[bk+"MintCoins"] = func(x *Exec, st *State, ci *callInfo, recv Val, a []Val, k func(*State, Val)) {
		x.usedModels[bk+"MintCoins"] = "err != nil leaves state unchanged; err == nil: Supply[d] += a and module balance += a for each coin (zero coins no-op); may fail for any reason"
		if x.root != nil && x.root.Prop == "C05" {
			// no-panic claims only: the SDK's MintCoins fails (returns an error) only for invalid coins; with valid
			// denoms (not modelled) that is a non-positive amount. The Minter permission is the F obligation
			// module-account-permissions.
			x.usedModels[bk+"MintCoins"] = "C05 only: err != nil only when some amount is not positive (valid denoms assumed; Minter permission: F obligation module-account-permissions); err == nil: Supply[d] += a and module balance += a"
			x.bankErrOnlyNonPositive = true
		}
		x.bankOp(st, ci, a, k, func(st *State, w int, d, am T) T {
			x.ghostAdd(st, w, "Supply", nil, d, am)
			x.ghostAdd(st, w, "Bal", ptrT(ghostModuleAddr()), d, am)
			return TTrue
		})
	}
	ifaceModels[bk+"BurnCoins"] = func(x *Exec, st *State, ci *callInfo, recv Val, a []Val, k func(*State, Val)) {
		x.usedModels[bk+"BurnCoins"] = "err == nil: module balance had >= a; Supply[d] -= a, module balance -= a; err != nil only when the module balance is insufficient (the module account holds the Burner permission: F obligation module-account-permissions)"
		x.bankErrOnlyInsufficient = true
		defer func() { x.bankErrOnlyInsufficient = false }()
		x.bankOp(st, ci, a, k, func(st *State, w int, d, am T) T {
			pre := Ge(sel2(st.Worlds[w]["Bal"], ghostModuleAddr(), d), am)
			x.ghostAdd(st, w, "Supply", nil, d, app(SInt, "-", am))
			x.ghostAdd(st, w, "Bal", ptrT(ghostModuleAddr()), d, app(SInt, "-", am))
			return pre
		})
	}
	ifaceModels[bk+"SendCoinsFromModuleToAccount"] = func(x *Exec, st *State, ci *callInfo, recv Val, a []Val, k func(*State, Val)) {
		x.usedModels[bk+"SendCoinsFromModuleToAccount"] = "err == nil: recipient is not the (blocked) module account and module balance had >= a; module -= a, account += a"
		if x.root != nil && x.root.Prop == "C05" {
			x.usedModels[bk+"SendCoinsFromModuleToAccount"] = "C05 only: err != nil only when the recipient is the (blocked) module account or the module balance is insufficient; err == nil: module -= a, account += a"
			x.bankErrOnlyInsufficient = true
		}
		to := tt(a[2])
		x.bankOp(st, ci, []Val{a[0], a[1], a[3]}, k, func(st *State, w int, d, am T) T {
			pre := And(Ge(sel2(st.Worlds[w]["Bal"], ghostModuleAddr(), d), am), Not(Eq(to, ghostModuleAddr())))
			x.ghostAdd(st, w, "Bal", ptrT(ghostModuleAddr()), d, app(SInt, "-", am))
			x.ghostAdd(st, w, "Bal", &to, d, am)
			return pre
		})
	}
	ifaceModels[bk+"SendCoinsFromAccountToModule"] = func(x *Exec, st *State, ci *callInfo, recv Val, a []Val, k func(*State, Val)) {
		x.usedModels[bk+"SendCoinsFromAccountToModule"] = "err == nil: account balance had >= a; account -= a, module += a"
		from := tt(a[1])
		x.bankOp(st, ci, []Val{a[0], a[2], a[3]}, k, func(st *State, w int, d, am T) T {
			pre := Ge(sel2(st.Worlds[w]["Bal"], from, d), am)
			x.ghostAdd(st, w, "Bal", &from, d, app(SInt, "-", am))
			x.ghostAdd(st, w, "Bal", ptrT(ghostModuleAddr()), d, am)
			return pre
		})
	}

	// ---- staking keeper --------------------------------------------------------------------------------
	for _, sk := range []string{"iface:" + mhubTypes + "StakingKeeper.", "iface:" + strings.Replace(mhubTypes, "/x/mhub2/types", "/x/oracle/types", 1) + "StakingKeeper."} {
	regI(sk+"GetLastTotalPower", "LastTotalPower >= 0 (ghost constant within a block)", func(x *Exec, st *State, ci *callInfo, recv Val, a []Val) Val {
		x.e.declareFun("uf_totalpower", "() Int")
		t := T{S: "uf_totalpower", So: SInt}
		st.assume(Ge(t, IntLit(0)), "total power >= 0")
		return t
	})
	regI(sk+"GetLastValidatorPower", "power(val) as int64 >= 0 (0 for unknown validators)", func(x *Exec, st *State, ci *callInfo, recv Val, a []Val) Val {
		x.e.declareFun("uf_power", "(String) Int")
		t := app(SInt, "uf_power", tt(a[1]))
		st.assume(And(Ge(t, IntLit(0)), Lt(t, BigLit(two63))), "validator power in int64, >= 0")
		return t
	})
	regI(sk+"GetBondedValidatorsByPower", "list of bonded validators (operators pairwise distinct, each bonded, at most 2^16)", func(x *Exec, st *State, ci *callInfo, recv Val, a []Val) Val {
		x.e.declareFun("uf_bondedlist", "() (Array Int String)")
		x.e.declareFun("uf_bondedn", "() Int")
		x.e.declareFun("uf_bonded", "(String) Bool")
		arr := T{S: "uf_bondedlist", So: "(Array Int String)"}
		n := T{S: "uf_bondedn", So: SInt}
		st.assume(And(Ge(n, IntLit(0)), Le(n, IntLit(65536))), "bonded set size")
		st.assume(T{S: fmt.Sprintf("(forall ((i Int) (j Int)) (! (=> (and (<= 0 i) (< i j) (< j %s)) (not (= (select %s i) (select %s j)))) :pattern ((select %s i) (select %s j))))", n.S, arr.S, arr.S, arr.S, arr.S), So: SBool}, "bonded validators distinct")
		st.assume(T{S: fmt.Sprintf("(forall ((i Int)) (! (=> (and (<= 0 i) (< i %s)) (uf_bonded (select %s i))) :pattern ((select %s i))))", n.S, arr.S, arr.S), So: SBool}, "listed validators are bonded")
		o := x.e.newObj(st, arr)
		et := ci.sig.Results().At(0).Type().Underlying().(*types.Slice).Elem()
		x.e.objElem[o] = et
		return &SliceV{Back: o, Off: IntLit(0), Len: n, Elem: et}
	})
	regI(sk+"Validator", "ValidatorI for the operator, nil iff !valexists(op)", func(x *Exec, st *State, ci *callInfo, recv Val, a []Val) Val {
		x.e.declareFun("uf_valexists", "(String) Bool")
		op := tt(a[1])
		return &OpaqueV{Tag: "validatorI", Data: map[string]Val{"op": op, "isnil": Not(app(SBool, "uf_valexists", op))}}
	})
	regI("opaque:validatorI.IsBonded", "bonded(op)", func(x *Exec, st *State, ci *callInfo, recv Val, a []Val) Val {
		x.e.declareFun("uf_bonded", "(String) Bool")
		o := recv.(*OpaqueV)
		x.panicIf(st, o.Data["isnil"].(T), "nil-interface-call", ci.pos)
		return app(SBool, "uf_bonded", o.Data["op"].(T))
	})
	regI("opaque:validatorI.IsUnbonded", "unbonded(op); exclusive with bonded", func(x *Exec, st *State, ci *callInfo, recv Val, a []Val) Val {
		x.e.declareFun("uf_bonded", "(String) Bool")
		x.e.declareFun("uf_unbonded", "(String) Bool")
		o := recv.(*OpaqueV)
		x.panicIf(st, o.Data["isnil"].(T), "nil-interface-call", ci.pos)
		op := o.Data["op"].(T)
		st.assume(Not(And(app(SBool, "uf_bonded", op), app(SBool, "uf_unbonded", op))), "status exclusive")
		return app(SBool, "uf_unbonded", op)
	})
	regI("opaque:validatorI.IsUnbonding", "unbonding(op); exclusive with bonded", func(x *Exec, st *State, ci *callInfo, recv Val, a []Val) Val {
		x.e.declareFun("uf_bonded", "(String) Bool")
		x.e.declareFun("uf_unbonding", "(String) Bool")
		o := recv.(*OpaqueV)
		op := o.Data["op"].(T)
		st.assume(Not(And(app(SBool, "uf_bonded", op), app(SBool, "uf_unbonding", op))), "status exclusive")
		return app(SBool, "uf_unbonding", op)
	})
	regI("opaque:validatorI.GetOperator", "the operator address", func(x *Exec, st *State, ci *callInfo, recv Val, a []Val) Val {
		o := recv.(*OpaqueV)
		x.panicIf(st, o.Data["isnil"].(T), "nil-interface-call", ci.pos)
		return o.Data["op"]
	})
	}
	reg("(github.com/cosmos/cosmos-sdk/x/staking/types.Validator).GetOperator", "the operator address (validators are modelled by their operator address)", func(x *Exec, st *State, ci *callInfo, a []Val) Val {
		return a[0]
	})

	// ---- oracle / account keepers ----------------------------------------------------------------------
	ok := "iface:" + mhubTypes + "OracleKeeper."
	regI(ok+"GetHolderValue", "holderValue(address) (any integer)", func(x *Exec, st *State, ci *callInfo, recv Val, a []Val) Val {
		x.e.declareFun("uf_holderValue", "(String) Int")
		return app(SInt, "uf_holderValue", tt(a[1]))
	})
	regI(ok+"MustGetTokenPrice", "price(denom) as Dec; PANICS iff !hasprice(denom)", func(x *Exec, st *State, ci *callInfo, recv Val, a []Val) Val {
		x.e.declareFun("uf_price", "(String) Int")
		x.e.declareFun("uf_hasprice", "(String) Bool")
		x.panicIf(st, Not(app(SBool, "uf_hasprice", tt(a[1]))), "MustGetTokenPrice-missing-price", ci.pos)
		return app(SInt, "uf_price", tt(a[1]))
	})
	regI("iface:"+strings.Replace(mhubTypes, "/x/mhub2/types", "/x/oracle/types", 1)+"Mhub2Keeper.GetTokenInfos", "the token list of the mhub2 module (arbitrary, non-nil)", func(x *Exec, st *State, ci *callInfo, recv Val, a []Val) Val {
		rt := ci.sig.Results().At(0).Type()
		r := x.havocValLike(st, &PtrV{}, "tokenInfos", rt)
		if p, ok := r.(*PtrV); ok {
			p.Nil = TFalse
		}
		return r
	})
	ak := "iface:" + mhubTypes + "AccountKeeper."
	regI(ak+"GetSequence", "(accseq(addr), err) err iff account unknown", func(x *Exec, st *State, ci *callInfo, recv Val, a []Val) Val {
		x.e.declareFun("uf_accseq", "(String) Int")
		x.e.declareFun("uf_accexists", "(String) Bool")
		s := app(SInt, "uf_accseq", tt(a[1]))
		st.assume(And(Ge(s, IntLit(0)), Lt(s, BigLit(two64))), "sequence is uint64")
		return &TupleV{Vs: []Val{s, &ErrV{IsNil: app(SBool, "uf_accexists", tt(a[1]))}}}
	})
}

var tempAddrBytes = []byte{1, 1, 1, 1, 1, 1, 1, 1, 1, 1, 1, 1, 1, 1, 1, 1, 1, 1, 1, 1}

func init() {
	globalModels["github.com/MinterTeam/mhub2/module/x/mhub2/types.TempAddress"] = func(x *Exec, st *State) Val {
		return T{S: smtStrLit(tempAddrBytes), So: SString}
	}
	constSpec["tempAddr"] = T{S: smtStrLit(tempAddrBytes), So: SString}
}

func ptrT(t T) *T { return &t }

func sel1(arr T, k T) T {
	return T{S: fmt.Sprintf("(select %s %s)", arr.S, k.S), So: arrayValueSort(arr.So)}
}
func sel2(arr T, k1, k2 T) T { return sel1(sel1(arr, k1), k2) }

// ghostAdd: G[k1][k2] += d (k1 == nil: one-level map).
func (x *Exec) ghostAdd(st *State, w int, g string, k1 *T, k2 T, d T) {
	cur := st.Worlds[w][g]
	if k1 == nil {
		st.Worlds[w][g] = T{S: fmt.Sprintf("(store %s %s %s)", cur.S, k2.S, Add(sel1(cur, k2), d).S), So: cur.So}
	} else {
		inner := sel1(cur, *k1)
		upd := T{S: fmt.Sprintf("(store %s %s %s)", inner.S, k2.S, Add(sel1(inner, k2), d).S), So: inner.So}
		st.Worlds[w][g] = T{S: fmt.Sprintf("(store %s %s %s)", cur.S, k1.S, upd.S), So: cur.So}
	}
	if st.GWrit != nil {
		st.GWrit[g] = true
	}
}

// bankOp: args = ctx, moduleName, coins. Forks into an error path (state unchanged) and a success path.
func (x *Exec) bankOp(st *State, ci *callInfo, a []Val, k func(*State, Val), apply func(st *State, w int, d, am T) T) {
	w := a[0].(*CtxV).World
	coins := x.coinsElems(st, a[2])
	x.e.note("bank operations fail atomically (an error leaves all balances unchanged) and may fail for reasons outside the model")
	// error path
	es := st.clone()
	x.paths++
	// success path
	pre := TTrue
	allPositive := TTrue
	for _, c := range coins {
		d, am := coinOf(x, c)
		x.panicIf(st, Lt(am, IntLit(0)), "bank-negative-coin", ci.pos)
		p := apply(st, w, d, am)
		pre = And(pre, p)
		allPositive = And(allPositive, Gt(am, IntLit(0)))
	}
	st.assume(pre, "bank operation succeeded => sufficient funds")
	if x.bankErrOnlyInsufficient {
		x.bankErrOnlyInsufficient = false
		es.assume(Not(pre), "this bank operation fails only when its precondition on the balances / recipient does not hold")
	}
	if x.bankErrOnlyNonPositive {
		x.bankErrOnlyNonPositive = false
		es.assume(Not(allPositive), "minting fails only for a non-positive amount")
	}
	x.tryPath(func() { k(st, &ErrV{IsNil: TTrue}) })
	x.tryPath(func() { k(es, &ErrV{IsNil: TFalse}) })
}

// prefixRangeHandle: Iterator(start, end) with (start, end) = prefixRange(p) iterates the keys with byte prefix p.
func (x *Exec) prefixRangeHandle(st *State, recv Val, a []Val) (*storeHandle, bool) {
	if len(a) != 2 {
		return nil, false
	}
	start, ok := a[0].(T)
	end, ok2 := a[1].(*OpaqueV)
	if !ok || !ok2 || end.Tag != "prefixEnd" || end.Data["of"].(T).S != start.S {
		return nil, false
	}
	h := *x.storeOf(recv)
	p := start
	if h.Prefix != nil {
		p = Concat(*h.Prefix, start)
	}
	h.Prefix = &p
	return &h, true
}

func init() {
	for _, pk := range []string{"github.com/MinterTeam/mhub2/module/x/oracle/keeper", "github.com/MinterTeam/mhub2/module/x/mhub2/keeper"} {
		reg(pk+".prefixRange", "ASSUMED contract of a repository function: prefixRange(p) = (p, first key after all keys with byte prefix p), for a non-empty p", func(x *Exec, st *State, ci *callInfo, a []Val) Val {
			p := tt(a[0])
			x.panicIf(st, Eq(StrLen(p), IntLit(0)), "prefixRange-empty-prefix-not-modelled", ci.pos)
			return &TupleV{Vs: []Val{p, &OpaqueV{Tag: "prefixEnd", Data: map[string]Val{"of": p}}}}
		})
	}
}

// External services used by the Minter connector: arbitrary results (any response, any error).
func init() {
	arbitrary := func(name, doc string) {
		reg(name, doc, func(x *Exec, st *State, ci *callInfo, a []Val) Val {
			res := ci.sig.Results()
			tv := &TupleV{}
			for i := 0; i < res.Len(); i++ {
				t := res.At(i).Type()
				if isErrorType(t) {
					tv.Vs = append(tv.Vs, &ErrV{IsNil: x.e.fresh("exterr_isnil", SBool)})
					continue
				}
				v := x.havocValLike(st, x.tryZero(st, t), "ext", t)
				if p, ok := v.(*PtrV); ok {
					p.Nil = TFalse
				}
				tv.Vs = append(tv.Vs, v)
			}
			if len(tv.Vs) == 1 {
				return tv.Vs[0]
			}
			if len(tv.Vs) == 0 {
				return nil
			}
			return tv
		})
	}
	arbitrary("(*github.com/MinterTeam/minter-go-sdk/v2/api/http_client.Client).Blocks", "ASSUMED external service: any list of blocks or any error")
	arbitrary("(*google.golang.org/protobuf/types/known/anypb.Any).UnmarshalNew", "ASSUMED: any message or any error")
	reg("time.Sleep", "no effect on modelled state", func(x *Exec, st *State, ci *callInfo, a []Val) Val { return nil })
}

func (x *Exec) iterBounds(st *State, a []Val) {
	for _, v := range a {
		switch b := v.(type) {
		case NilV:
		case T:
			if StrLen(b).S != "0" {
				x.fail("iterators with explicit bounds are not modelled")
			}
		default:
			x.fail("iterator bound of type %T", v)
		}
	}
}

// anyDyn: the Dyn term held by an *Any value.
func (x *Exec) anyDyn(st *State, v Val) T {
	switch a := v.(type) {
	case *PtrV:
		inner := x.e.load(st, a)
		if o, ok := inner.(*OpaqueV); ok && o.Tag == "any" {
			return o.Data["dyn"].(T)
		}
		if t, ok := inner.(T); ok && t.So == "Dyn" {
			return t
		}
		x.fail("Any pointer to %T", inner)
	case *OpaqueV:
		if a.Tag == "any" {
			return a.Data["dyn"].(T)
		}
	case T:
		if a.So == "Dyn" {
			return a
		}
	}
	x.fail("not an Any: %T", v)
	return T{}
}

func (x *Exec) marshalVal(st *State, v Val) T {
	iv, ok := v.(*IfaceV)
	if !ok {
		x.fail("MustMarshal of %T", v)
	}
	if iv.Sym || iv.Typ == nil {
		x.fail("MustMarshal of a value with unknown dynamic type")
	}
	pt, isPtr := iv.Typ.(*types.Pointer)
	if !isPtr {
		x.fail("MustMarshal of non-pointer %s", typeString(iv.Typ))
	}
	if typeString(pt.Elem()) == tyAny {
		mar, _ := x.e.marshalDyn()
		return app(SString, mar, x.anyDyn(st, iv.V))
	}
	mar, _ := x.e.marshalFn(pt.Elem())
	p := iv.V.(*PtrV)
	x.panicIf(st, p.Nil, "MustMarshal-of-nil", token.NoPos)
	if _, live := st.Heap[p.Obj]; !live {
		x.fail("MustMarshal of a pointer without an object (nil=%s, %s)", p.Nil.S, typeString(pt))
	}
	term := x.e.reify(st, x.e.load(st, p), pt.Elem())
	return app(SString, mar, term)
}

func (x *Exec) unmarshalInto(st *State, bz T, target Val, ci *callInfo) {
	iv, ok := target.(*IfaceV)
	if !ok || iv.Typ == nil {
		x.fail("Unmarshal into %T", target)
	}
	pt := iv.Typ.(*types.Pointer)
	p := iv.V.(*PtrV)
	if typeString(pt.Elem()) == tyAny {
		_, unm := x.e.marshalDyn()
		x.storeTo(st, p, &OpaqueV{Tag: "any", Data: map[string]Val{"dyn": app("Dyn", unm, bz)}}, pt.Elem(), ci.pos)
		return
	}
	_, unm := x.e.marshalFn(pt.Elem())
	so := x.e.sortOf(pt.Elem())
	v := x.e.reflect(st, app(so, unm, bz), pt.Elem())
	x.assumeFieldRanges(st, v, pt.Elem(), 2)
	x.storeTo(st, p, v, pt.Elem(), ci.pos)
}

// assumeFieldRanges: machine ranges of integer fields of decoded messages.
func (x *Exec) assumeFieldRanges(st *State, v Val, t types.Type, depth int) {
	x.e.assumeFieldRanges(st, v, t, depth)
}

func (e *Engine) assumeFieldRanges(st *State, v Val, t types.Type, depth int) {
	sv, ok := v.(*StructV)
	if !ok || depth == 0 {
		return
	}
	u := t.Underlying().(*types.Struct)
	for i := 0; i < u.NumFields(); i++ {
		ft := u.Field(i).Type()
		switch f := sv.F[i].(type) {
		case T:
			if r := intRange(f, ft); r.S != "true" {
				st.assume(r, "decoded field range")
			}
		case *StructV:
			e.assumeFieldRanges(st, f, ft, depth-1)
		case *SliceV:
			st.assume(Ge(f.Len, IntLit(0)), "decoded slice length >= 0")
		}
	}
}

var _ = strings.Contains
