package main

// Contract files (//@ comments in zz_contracts_verif.go), expression parser.

import (
	"fmt"
	"go/types"
	"os"
	"path/filepath"
	"regexp"
	"sort"
	"strconv"
	"strings"

	"golang.org/x/tools/go/packages"
	"golang.org/x/tools/go/ssa"
)

type Clause struct {
	Kind   string // requires, ensures, invariant, assert
	Params []string // for parametric lets
	Site   int      // at-call clauses: restrict to the N-th call site (source order) in the root function; 0 = all
	Name   string
	Props map[string]bool // nil = all props of the function
	Src   string
	Expr  *Expr
	Line  string
}

type LoopSpec struct {
	Key        string
	Ordinal    int
	Invariants []*Clause
}

type FuncSpec struct {
	Name     string // short name as written, e.g. "(Keeper).TryEventVoteRecord"
	Pkg      string
	Props    []string
	Prop     string // property currently being checked (set by driver)
	Requires []*Clause
	Ensures  []*Clause
	Loops    map[string]*LoopSpec
	NoPanic  map[string]bool // props for which nopanic is claimed ("*" = all)
	Modifies []string        // ghost names; nil = unknown (all)
	ModSet   bool
	Pure     bool
	InlineAtCalls bool // verified on its own, but inlined at call sites
	Assumed  bool // contract of a repository function that is NOT verified (wrappers of external services); listed as an assumption
	NoPanicOnly []string
	ExactPrefix map[string]bool // families whose byte-prefix iteration is assumed to select exactly the given components
	Nullable []string // parameter field paths (param.Field) whose pointer may be nil
	Inline   bool
	Lets     []*Clause // let name := expr (evaluated in post-state)
	AtCalls  map[string][]*Clause // callee short name -> assertions checked in the caller's state at each call
	ResultIs *Clause              // definitional: the (first) result is exactly this spec term (when err == nil)
	HashExcept []string
	HashInj  bool                 // 2-safety mode: the sha256 pre-image determines every field of the receiver
	File     string
}

func (f *FuncSpec) HasContract() bool {
	return f != nil && (len(f.Requires) > 0 || len(f.Ensures) > 0 || f.ModSet || f.Pure || f.Assumed || f.ResultIs != nil) && !(f.HashInj && f.ResultIs == nil && len(f.Ensures) == 0 && false)
}

func (c *Clause) appliesTo(prop string) bool {
	return c.Props == nil || c.Props[prop] || prop == ""
}

type SpecDB struct {
	byFunc      map[string]*FuncSpec // key: pkgpath + "|" + short name
	forceInline map[string]bool
	all         []*FuncSpec
	lemmas      []*Lemma
	specFns     map[string]ufSig
	axioms      []*Clause
	macros      map[string]*Expr
	pmacros     map[string]*Clause // parametric macros
}

type Lemma struct {
	Name  string
	Props []string
	Pkg   string
	Body  string // raw SMT-LIB
	Kind  string // "smt"
	Expect string
}

var clauseRe = regexp.MustCompile(`^(requires|ensures|defines|invariant|assert)(\[[A-Z0-9, ]+\])?\s+(?:([A-Za-z0-9_\-]+):\s+)?(.*)$`)

func shortFuncName(fn *ssa.Function) string {
	// "(Keeper).Method", "(*T).Method", "Func", "Func$1", "(Keeper).Method$1"
	name := fn.Name()
	if fn.Parent() != nil {
		// closure: parent's short name + suffix after parent's name
		p := shortFuncName(fn.Parent())
		suffix := strings.TrimPrefix(fn.Name(), fn.Parent().Name())
		return p + suffix
	}
	if recv := fn.Signature.Recv(); recv != nil {
		rt := recv.Type()
		star := ""
		if p, ok := rt.(*types.Pointer); ok {
			rt = p.Elem()
			star = "*"
		}
		if n, ok := rt.(*types.Named); ok {
			return "(" + star + n.Obj().Name() + ")." + name
		}
	}
	return name
}

func (db *SpecDB) lookup(fn *ssa.Function) *FuncSpec {
	if fn.Pkg == nil && fn.Parent() == nil {
		return nil
	}
	pk := fn.Pkg
	if pk == nil {
		p := fn
		for p.Parent() != nil {
			p = p.Parent()
		}
		pk = p.Pkg
	}
	if pk == nil {
		return nil
	}
	return db.byFunc[pk.Pkg.Path()+"|"+shortFuncName(fn)]
}

func parseProps(s string) map[string]bool {
	s = strings.Trim(s, "[]")
	if s == "" {
		return nil
	}
	m := map[string]bool{}
	for _, p := range strings.Split(s, ",") {
		m[strings.TrimSpace(p)] = true
	}
	return m
}

// LoadSpecs reads all zz_contracts_verif.go files of the loaded packages.
func LoadSpecs(pkgs []*packages.Package) (*SpecDB, error) {
	db := &SpecDB{byFunc: map[string]*FuncSpec{}, forceInline: map[string]bool{}, specFns: map[string]ufSig{}, macros: map[string]*Expr{}, pmacros: map[string]*Clause{}}
	for _, p := range pkgs {
		for _, f := range p.GoFiles {
			if filepath.Base(f) != "zz_contracts_verif.go" {
				continue
			}
			if err := db.loadFile(p.PkgPath, f); err != nil {
				return nil, err
			}
		}
	}
	return db, nil
}

func (db *SpecDB) loadFile(pkgPath, file string) error {
	data, err := os.ReadFile(file)
	if err != nil {
		return err
	}
	var cur *FuncSpec
	var curLemma *Lemma
	lines := strings.Split(string(data), "\n")
	for ln := 0; ln < len(lines); ln++ {
		line := strings.TrimSpace(lines[ln])
		if !strings.HasPrefix(line, "//@") {
			if !strings.HasPrefix(line, "//") {
				// non-comment line ends blocks
			}
			continue
		}
		body := strings.TrimSpace(line[3:])
		// continuation lines: "//@   ..." starting with at least two spaces after //@ are appended
		for ln+1 < len(lines) {
			nx := strings.TrimSpace(lines[ln+1])
			if strings.HasPrefix(nx, "//@    ") {
				body += " " + strings.TrimSpace(nx[3:])
				ln++
			} else {
				break
			}
		}
		where := fmt.Sprintf("%s:%d", file, ln+1)
		switch {
		case body == "":
			continue
		case strings.HasPrefix(body, "func "):
			curLemma = nil
			name := strings.Replace(strings.TrimSpace(body[5:]), ") ", ").", 1)
			cur = &FuncSpec{Name: name, Pkg: pkgPath, Loops: map[string]*LoopSpec{}, NoPanic: map[string]bool{}, File: file}
			key := pkgPath + "|" + name
			if _, dup := db.byFunc[key]; dup {
				return fmt.Errorf("%s: duplicate contract for %s", where, name)
			}
			db.byFunc[key] = cur
			db.all = append(db.all, cur)
		case strings.HasPrefix(body, "lemma "):
			cur = nil
			fs := strings.Fields(body)
			curLemma = &Lemma{Name: fs[1], Pkg: pkgPath, Expect: "unsat"}
			for _, f := range fs[2:] {
				if strings.HasPrefix(f, "C") {
					curLemma.Props = append(curLemma.Props, f)
				}
			}
			db.lemmas = append(db.lemmas, curLemma)
		case strings.HasPrefix(body, "macro "):
			rest := strings.TrimSpace(body[6:])
			i := strings.Index(rest, ":=")
			if i < 0 {
				return fmt.Errorf("%s: bad macro", where)
			}
			ex, err := ParseExpr(strings.TrimSpace(rest[i+2:]))
			if err != nil {
				return fmt.Errorf("%s: %v", where, err)
			}
			mname := strings.TrimSpace(rest[:i])
			if k := strings.Index(mname, "("); k >= 0 {
				var params []string
				for _, p := range strings.Split(strings.TrimSuffix(mname[k+1:], ")"), ",") {
					params = append(params, strings.TrimSpace(p))
				}
				db.pmacros[mname[:k]] = &Clause{Kind: "macro", Name: mname[:k], Params: params, Expr: ex, Line: where}
			} else {
				db.macros[mname] = ex
			}
		case strings.HasPrefix(body, "specfn "):
			// specfn name(Sort, Sort): Sort
			rest := strings.TrimSpace(body[7:])
			i := strings.Index(rest, "(")
			j := strings.LastIndex(rest, ")")
			if i < 0 || j < i {
				return fmt.Errorf("%s: bad specfn", where)
			}
			var as []string
			for _, a := range strings.Split(rest[i+1:j], ",") {
				if a = strings.TrimSpace(a); a != "" {
					as = append(as, a)
				}
			}
			res := strings.TrimSpace(strings.TrimPrefix(strings.TrimSpace(rest[j+1:]), ":"))
			db.specFns[strings.TrimSpace(rest[:i])] = ufSig{Args: as, Res: res}
		case strings.HasPrefix(body, "axiom "):
			rest := strings.TrimSpace(body[6:])
			i := strings.Index(rest, ":")
			ex, err := ParseExpr(strings.TrimSpace(rest[i+1:]))
			if err != nil {
				return fmt.Errorf("%s: %v", where, err)
			}
			db.axioms = append(db.axioms, &Clause{Kind: "axiom", Name: strings.TrimSpace(rest[:i]), Src: rest, Expr: ex, Line: where})
		case curLemma != nil && strings.HasPrefix(body, "smt "):
			curLemma.Body += body[4:] + "\n"
		case cur == nil:
			return fmt.Errorf("%s: clause outside of a func block: %s", where, body)
		case strings.HasPrefix(body, "prop "):
			cur.Props = append(cur.Props, strings.Fields(body[5:])...)
		case strings.HasPrefix(body, "nopanic-only "):
			// nopanic-only <Cxx> <kind-substring>...: only panic sites whose kind contains one of the substrings
			fs := strings.Fields(body)[1:]
			if len(fs) >= 2 {
				cur.NoPanic[fs[0]] = true
				cur.NoPanicOnly = append(cur.NoPanicOnly, fs[1:]...)
			}
		case strings.HasPrefix(body, "nopanic"):
			ps := strings.Fields(body)[1:]
			if len(ps) == 0 {
				cur.NoPanic["*"] = true
			}
			for _, p := range ps {
				cur.NoPanic[p] = true
			}
		case strings.HasPrefix(body, "exact-prefix "):
			if cur.ExactPrefix == nil {
				cur.ExactPrefix = map[string]bool{}
			}
			for _, f := range strings.Fields(body[13:]) {
				cur.ExactPrefix[f] = true
			}
		case strings.HasPrefix(body, "nullable "):
			cur.Nullable = append(cur.Nullable, strings.Fields(body[9:])...)
		case body == "assumed":
			cur.Assumed = true
		case body == "inline-at-calls":
			// the contract is verified for the function on its own, but callers keep executing its body (their
			// proofs need its exact effects, which the contract does not repeat)
			cur.InlineAtCalls = true
		case body == "pure":
			cur.Pure = true
			cur.ModSet = true
		case strings.HasPrefix(body, "hash-injective"):
			cur.HashInj = true
			if i := strings.Index(body, "except"); i >= 0 {
				cur.HashExcept = strings.Fields(body[i+6:])
			}
		case body == "inline":
			cur.Inline = true
		case strings.HasPrefix(body, "modifies"):
			cur.ModSet = true
			for _, m := range strings.Split(strings.TrimSpace(body[8:]), ",") {
				m = strings.TrimSpace(m)
				if m != "" {
					cur.Modifies = append(cur.Modifies, m)
				}
			}
		case strings.HasPrefix(body, "loop "):
			fs := strings.SplitN(body, " ", 3)
			n := fs[1]
			if len(fs) < 3 {
				return fmt.Errorf("%s: bad loop clause", where)
			}
			m := clauseRe.FindStringSubmatch(strings.TrimSpace(fs[2]))
			if m == nil || m[1] != "invariant" {
				if strings.HasPrefix(strings.TrimSpace(fs[2]), "decreases") {
					continue // recorded only
				}
				return fmt.Errorf("%s: bad loop clause: %s", where, body)
			}
			ex, err := ParseExpr(m[4])
			if err != nil {
				return fmt.Errorf("%s: %v", where, err)
			}
			ls := cur.Loops[n]
			if ls == nil {
				ls = &LoopSpec{Key: n}
				cur.Loops[n] = ls
			}
			nm := m[3]
			if nm == "" {
				nm = fmt.Sprintf("inv%d", len(ls.Invariants)+1)
			}
			ls.Invariants = append(ls.Invariants, &Clause{Kind: "invariant", Name: nm, Props: parseProps(m[2]), Src: m[4], Expr: ex, Line: where})
		case strings.HasPrefix(body, "result-is "):
			ex, err := ParseExpr(strings.TrimSpace(body[10:]))
			if err != nil {
				return fmt.Errorf("%s: %v", where, err)
			}
			cur.ResultIs = &Clause{Kind: "defines", Name: "result-is", Src: body[10:], Expr: ex, Line: where}
		case strings.HasPrefix(body, "at call "):
			rest := strings.TrimSpace(body[8:])
			i := strings.Index(rest, " assert")
			if i < 0 {
				return fmt.Errorf("%s: bad at-call clause", where)
			}
			callee := strings.Replace(strings.TrimSpace(rest[:i]), ") ", ").", 1)
			site := 0
			if k := strings.Index(callee, " site "); k >= 0 {
				fmt.Sscanf(strings.TrimSpace(callee[k+6:]), "%d", &site)
				callee = strings.TrimSpace(callee[:k])
			}
			m := clauseRe.FindStringSubmatch(strings.TrimSpace(rest[i+1:]))
			if m == nil {
				return fmt.Errorf("%s: bad at-call clause: %s", where, body)
			}
			ex, err := ParseExpr(m[4])
			if err != nil {
				return fmt.Errorf("%s: %v", where, err)
			}
			if cur.AtCalls == nil {
				cur.AtCalls = map[string][]*Clause{}
			}
			nm := m[3]
			if nm == "" {
				nm = fmt.Sprintf("atcall#%d", len(cur.AtCalls[callee])+1)
			}
			cur.AtCalls[callee] = append(cur.AtCalls[callee], &Clause{Kind: "assert", Name: nm, Props: parseProps(m[2]), Src: m[4], Expr: ex, Line: where, Site: site})
		case strings.HasPrefix(body, "let "):
			rest := strings.TrimSpace(body[4:])
			i := strings.Index(rest, ":=")
			if i < 0 {
				return fmt.Errorf("%s: bad let", where)
			}
			ex, err := ParseExpr(strings.TrimSpace(rest[i+2:]))
			if err != nil {
				return fmt.Errorf("%s: %v", where, err)
			}
			lname := strings.TrimSpace(rest[:i])
			var params []string
			if k := strings.Index(lname, "("); k >= 0 {
				for _, p := range strings.Split(strings.TrimSuffix(lname[k+1:], ")"), ",") {
					params = append(params, strings.TrimSpace(p))
				}
				lname = lname[:k]
			}
			cur.Lets = append(cur.Lets, &Clause{Kind: "let", Name: lname, Params: params, Src: rest, Expr: ex, Line: where})
		default:
			m := clauseRe.FindStringSubmatch(body)
			if m == nil {
				return fmt.Errorf("%s: cannot parse clause: %s", where, body)
			}
			ex, err := ParseExpr(m[4])
			if err != nil {
				return fmt.Errorf("%s: %v in: %s", where, err, m[4])
			}
			c := &Clause{Kind: m[1], Name: m[3], Props: parseProps(m[2]), Src: m[4], Expr: ex, Line: where}
			switch m[1] {
			case "requires":
				if c.Name == "" {
					c.Name = fmt.Sprintf("requires#%d", len(cur.Requires)+1)
				}
				cur.Requires = append(cur.Requires, c)
			case "ensures", "defines":
				if c.Name == "" {
					c.Name = fmt.Sprintf("ensures#%d", len(cur.Ensures)+1)
				}
				cur.Ensures = append(cur.Ensures, c)
			default:
				return fmt.Errorf("%s: clause kind %s not allowed here", where, m[1])
			}
		}
	}
	return nil
}

func (db *SpecDB) funcsFor(prop string) []*FuncSpec {
	var res []*FuncSpec
	for _, f := range db.all {
		for _, p := range f.Props {
			if p == prop && !f.Assumed {
				res = append(res, f)
			}
		}
	}
	sort.Slice(res, func(i, j int) bool { return res[i].Pkg+res[i].Name < res[j].Pkg+res[j].Name })
	return res
}

// ---------------------------------------------------------------------------
// Expression AST and parser.

type Expr struct {
	Op   string // "lit","str","id","sel","idx","call","un","bin","quant","ite","bool"
	Val  string
	Args []*Expr
	Vars []string // quant: var names
	Srts []string // quant: var sorts
}

type tok struct {
	k string // "id","num","str","op","eof"
	v string
}

func lexExpr(s string) ([]tok, error) {
	var ts []tok
	i := 0
	for i < len(s) {
		c := s[i]
		switch {
		case c == ' ' || c == '\t':
			i++
		case c >= '0' && c <= '9':
			j := i
			for j < len(s) && ((s[j] >= '0' && s[j] <= '9') || s[j] == '_') {
				j++
			}
			// decimal fraction: a real literal
			if j+1 < len(s) && s[j] == '.' && s[j+1] >= '0' && s[j+1] <= '9' {
				j++
				for j < len(s) && s[j] >= '0' && s[j] <= '9' {
					j++
				}
			}
			ts = append(ts, tok{"num", strings.ReplaceAll(s[i:j], "_", "")})
			i = j
		case c == '"':
			j := i + 1
			for j < len(s) && s[j] != '"' {
				if s[j] == '\\' {
					j++
				}
				j++
			}
			if j >= len(s) {
				return nil, fmt.Errorf("unterminated string")
			}
			u, err := strconv.Unquote(s[i : j+1])
			if err != nil {
				return nil, err
			}
			ts = append(ts, tok{"str", u})
			i = j + 1
		case (c >= 'a' && c <= 'z') || (c >= 'A' && c <= 'Z') || c == '_' || c == '#' || c == '$':
			j := i + 1
			for j < len(s) && ((s[j] >= 'a' && s[j] <= 'z') || (s[j] >= 'A' && s[j] <= 'Z') || (s[j] >= '0' && s[j] <= '9') || s[j] == '_' || s[j] == '$') {
				j++
			}
			ts = append(ts, tok{"id", s[i:j]})
			i = j
		default:
			for _, op := range []string{"<==>", "==>", "::", "==", "!=", "<=", ">=", "&&", "||", "++"} {
				if strings.HasPrefix(s[i:], op) {
					ts = append(ts, tok{"op", op})
					i += len(op)
					goto next
				}
			}
			if strings.ContainsRune("+-*/%<>!()[].,?:{}", rune(c)) {
				ts = append(ts, tok{"op", string(c)})
				i++
			} else {
				return nil, fmt.Errorf("unexpected character %q", c)
			}
		next:
		}
	}
	ts = append(ts, tok{"eof", ""})
	return ts, nil
}

type parser struct {
	ts []tok
	p  int
}

func ParseExpr(s string) (*Expr, error) {
	ts, err := lexExpr(s)
	if err != nil {
		return nil, err
	}
	p := &parser{ts: ts}
	e, err := p.parseImpl()
	if err != nil {
		return nil, err
	}
	if p.peek().k != "eof" {
		return nil, fmt.Errorf("unexpected token %q", p.peek().v)
	}
	return e, nil
}

func (p *parser) peek() tok { return p.ts[p.p] }
func (p *parser) next() tok { t := p.ts[p.p]; p.p++; return t }
func (p *parser) isOp(v string) bool {
	t := p.peek()
	return t.k == "op" && t.v == v
}
func (p *parser) expect(v string) error {
	if !p.isOp(v) {
		return fmt.Errorf("expected %q, got %q", v, p.peek().v)
	}
	p.next()
	return nil
}

func (p *parser) parseImpl() (*Expr, error) {
	// quantifiers bind weakest
	if t := p.peek(); t.k == "id" && (t.v == "forall" || t.v == "exists") {
		p.next()
		q := &Expr{Op: "quant", Val: t.v}
		for {
			v := p.next()
			if v.k != "id" {
				return nil, fmt.Errorf("expected bound variable")
			}
			so := "Int"
			if p.isOp(":") {
				p.next()
				if p.isOp("(") {
					// parenthesised SMT sort, e.g. (Array Key OptS)
					depth := 0
					var parts []string
					for {
						t := p.next()
						if t.k == "eof" {
							return nil, fmt.Errorf("unterminated sort")
						}
						if t.v == "(" {
							depth++
							parts = append(parts, "(")
							continue
						}
						if t.v == ")" {
							depth--
							parts = append(parts, ")")
							if depth == 0 {
								break
							}
							continue
						}
						parts = append(parts, t.v)
					}
					so = strings.ReplaceAll(strings.ReplaceAll(strings.Join(parts, " "), "( ", "("), " )", ")")
				} else {
					so = p.next().v
				}
			}
			q.Vars = append(q.Vars, v.v)
			q.Srts = append(q.Srts, so)
			if p.isOp(",") {
				p.next()
				continue
			}
			break
		}
		if err := p.expect("::"); err != nil {
			return nil, err
		}
		var trigs []*Expr
		if p.isOp("{") {
			p.next()
			for {
				tr, err := p.parseTern()
				if err != nil {
					return nil, err
				}
				trigs = append(trigs, tr)
				if p.isOp(",") {
					p.next()
					continue
				}
				break
			}
			if err := p.expect("}"); err != nil {
				return nil, err
			}
		}
		b, err := p.parseImpl()
		if err != nil {
			return nil, err
		}
		q.Args = append([]*Expr{b}, trigs...)
		return q, nil
	}
	l, err := p.parseTern()
	if err != nil {
		return nil, err
	}
	if p.isOp("==>") {
		p.next()
		r, err := p.parseImpl()
		if err != nil {
			return nil, err
		}
		return &Expr{Op: "bin", Val: "==>", Args: []*Expr{l, r}}, nil
	}
	if p.isOp("<==>") {
		p.next()
		r, err := p.parseImpl()
		if err != nil {
			return nil, err
		}
		return &Expr{Op: "bin", Val: "<==>", Args: []*Expr{l, r}}, nil
	}
	return l, nil
}

func (p *parser) parseTern() (*Expr, error) {
	c, err := p.parseBin(0)
	if err != nil {
		return nil, err
	}
	if p.isOp("?") {
		p.next()
		a, err := p.parseTern()
		if err != nil {
			return nil, err
		}
		if err := p.expect(":"); err != nil {
			return nil, err
		}
		b, err := p.parseTern()
		if err != nil {
			return nil, err
		}
		return &Expr{Op: "ite", Args: []*Expr{c, a, b}}, nil
	}
	return c, nil
}

var binPrec = map[string]int{"||": 1, "&&": 2, "==": 3, "!=": 3, "<": 3, "<=": 3, ">": 3, ">=": 3, "+": 4, "-": 4, "++": 4, "*": 5, "/": 5, "%": 5}

func (p *parser) parseBin(min int) (*Expr, error) {
	l, err := p.parseUn()
	if err != nil {
		return nil, err
	}
	for {
		t := p.peek()
		pr, ok := binPrec[t.v]
		if t.k != "op" || !ok || pr < min {
			return l, nil
		}
		p.next()
		r, err := p.parseBin(pr + 1)
		if err != nil {
			return nil, err
		}
		l = &Expr{Op: "bin", Val: t.v, Args: []*Expr{l, r}}
	}
}

func (p *parser) parseUn() (*Expr, error) {
	if t := p.peek(); t.k == "id" && (t.v == "forall" || t.v == "exists") {
		return p.parseImpl()
	}
	if p.isOp("!") || p.isOp("-") {
		op := p.next().v
		a, err := p.parseUn()
		if err != nil {
			return nil, err
		}
		return &Expr{Op: "un", Val: op, Args: []*Expr{a}}, nil
	}
	return p.parsePost()
}

func (p *parser) parsePost() (*Expr, error) {
	var e *Expr
	t := p.next()
	switch t.k {
	case "num":
		e = &Expr{Op: "lit", Val: t.v}
	case "str":
		e = &Expr{Op: "str", Val: t.v}
	case "id":
		switch t.v {
		case "true", "false":
			e = &Expr{Op: "bool", Val: t.v}
		default:
			e = &Expr{Op: "id", Val: t.v}
		}
	case "op":
		if t.v == "(" {
			in, err := p.parseImpl()
			if err != nil {
				return nil, err
			}
			if err := p.expect(")"); err != nil {
				return nil, err
			}
			e = in
		} else {
			return nil, fmt.Errorf("unexpected %q", t.v)
		}
	default:
		return nil, fmt.Errorf("unexpected end of expression")
	}
	for {
		switch {
		case p.isOp("."):
			p.next()
			f := p.next()
			if f.k != "id" && f.k != "num" {
				return nil, fmt.Errorf("expected field name")
			}
			e = &Expr{Op: "sel", Val: f.v, Args: []*Expr{e}}
		case p.isOp("["):
			p.next()
			var args []*Expr
			for !p.isOp("]") {
				a, err := p.parseImpl()
				if err != nil {
					return nil, err
				}
				args = append(args, a)
				if p.isOp(",") {
					p.next()
					continue
				}
				break
			}
			if err := p.expect("]"); err != nil {
				return nil, err
			}
			e = &Expr{Op: "idx", Args: append([]*Expr{e}, args...)}
		case p.isOp("("):
			p.next()
			var args []*Expr
			if !p.isOp(")") {
				for {
					a, err := p.parseImpl()
					if err != nil {
						return nil, err
					}
					args = append(args, a)
					if p.isOp(",") {
						p.next()
						continue
					}
					break
				}
			}
			if err := p.expect(")"); err != nil {
				return nil, err
			}
			if e.Op != "id" {
				return nil, fmt.Errorf("call of non-identifier")
			}
			e = &Expr{Op: "call", Val: e.Val, Args: args}
		default:
			return e, nil
		}
	}
}
