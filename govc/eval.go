package main

// Evaluation of value-producing SSA instructions and calls.

import (
	"sort"
	"fmt"
	"go/token"
	"go/types"
	"strings"

	"golang.org/x/tools/go/ssa"
)

// evalInstr evaluates a value instruction; returns true if it forked/continued execution itself.
func (x *Exec) evalInstr(st *State, fr *Frame, b *ssa.BasicBlock, idx int, v ssa.Value, k func(*State, Val)) bool {
	switch in := v.(type) {
	case *ssa.Alloc:
		elem := in.Type().(*types.Pointer).Elem()
		zero := x.tryZero(st, elem)
		o := x.e.newObj(st, zero)
		if a, ok := elem.Underlying().(*types.Array); ok {
			x.e.objElem[o] = a.Elem()
			switch in.Comment {
			case "slicelit", "makeslice", "varargs", "complit":
			default:
				if isByte(a.Elem()) {
					x.e.localArr[o] = true // a local [N]byte variable: slices of it are mutable views
				}
			}
		}
		fr.env[in] = &PtrV{Nil: TFalse, Obj: o, Elem: elem}
	case *ssa.BinOp:
		fr.env[in] = x.binop(st, in.Op, x.val(st, fr, in.X), x.val(st, fr, in.Y), in.X.Type(), in.Pos())
	case *ssa.UnOp:
		fr.env[in] = x.unop(st, fr, in)
		if in.Op == token.MUL {
			x.assumeLoadedRange(st, fr.env[in], in.Type())
		}
	case *ssa.ChangeType:
		fr.env[in] = x.val(st, fr, in.X)
	case *ssa.ChangeInterface:
		fr.env[in] = x.val(st, fr, in.X)
	case *ssa.Convert:
		fr.env[in] = x.convert(st, x.val(st, fr, in.X), in.X.Type(), in.Type(), in.Pos())
	case *ssa.MakeInterface:
		xv := x.val(st, fr, in.X)
		if isErrorType(in.Type()) {
			fr.env[in] = &ErrV{IsNil: TFalse}
		} else {
			fr.env[in] = &IfaceV{Typ: in.X.Type(), V: xv}
		}
	case *ssa.MakeClosure:
		c := &ClosureV{Fn: in.Fn.(*ssa.Function)}
		for _, bnd := range in.Bindings {
			c.Bindings = append(c.Bindings, x.val(st, fr, bnd))
		}
		fr.env[in] = c
	case *ssa.MakeSlice:
		et := in.Type().Underlying().(*types.Slice).Elem()
		ln := x.val(st, fr, in.Len).(T)
		if isByte(et) {
			if n, ok := isLit(ln); ok && n <= 64 && !copyDestination(in) {
				z := make([]byte, n)
				fr.env[in] = T{S: smtStrLit(z), So: SString, Segs: []Seg{{Kind: "const", Lit: z, S: smtStrLit(z)}}}
			} else {
				// mutable byte buffer of symbolic length
				o := x.e.newObj(st, app(SString, "zeros", ln))
				x.e.objElem[o] = et
				if st.Bufs == nil {
					st.Bufs = map[int]*bufInfo{}
				}
				st.Bufs[o] = &bufInfo{N: ln}
				fr.env[in] = &SliceV{Back: o, Off: IntLit(0), Len: ln, Elem: et}
			}
			break
		}
		es := x.e.sortOf(et)
		zero := x.e.reify(st, x.tryZeroReifiable(st, et), et)
		arr := T{S: fmt.Sprintf("((as const (Array Int %s)) %s)", es, zero.S), So: "(Array Int " + es + ")"}
		o := x.e.newObj(st, arr)
		x.e.objElem[o] = et
		x.panicIf(st, Lt(ln, IntLit(0)), "makeslice-negative-len", in.Pos())
		fr.env[in] = &SliceV{Back: o, Off: IntLit(0), Len: ln, Elem: et}
	case *ssa.MakeMap:
		mt := in.Type().Underlying().(*types.Map)
		so := x.e.sortOf(in.Type())
		ks := x.e.sortOf(mt.Key())
		vs := x.e.sortOf(mt.Elem())
		dv := x.e.fresh("mapdefault", vs)
		m := T{S: fmt.Sprintf("(mk_%s ((as const (Array %s Bool)) false) ((as const (Array %s %s)) %s))", so, ks, ks, vs, dv.S), So: so}
		o := x.e.newObj(st, m)
		fr.env[in] = &MapV{Obj: o}
	case *ssa.FieldAddr:
		p := x.val(st, fr, in.X)
		pp, ok := p.(*PtrV)
		if !ok {
			x.fail("FieldAddr on %T at %s", p, x.posStr(in.Pos()))
		}
		x.panicIf(st, pp.Nil, "nil-deref", in.Pos())
		st2 := in.X.Type().Underlying().(*types.Pointer).Elem().Underlying().(*types.Struct)
		np := &PtrV{Nil: TFalse, Obj: pp.Obj, Path: append(append([]PathEl(nil), pp.Path...), PathEl{Field: in.Field}), Elem: st2.Field(in.Field).Type()}
		fr.env[in] = np
	case *ssa.Field:
		s := x.val(st, fr, in.X)
		fr.env[in] = x.fieldOf(st, s, in.X.Type(), in.Field)
		x.assumeLoadedRange(st, fr.env[in], in.Type())
	case *ssa.IndexAddr:
		fr.env[in] = x.indexAddr(st, fr, in)
	case *ssa.Index:
		fr.env[in] = x.index(st, fr, in)
	case *ssa.Slice:
		fr.env[in] = x.sliceOp(st, fr, in)
	case *ssa.Extract:
		t := x.val(st, fr, in.Tuple).(*TupleV)
		fr.env[in] = t.Vs[in.Index]
	case *ssa.Lookup:
		fr.env[in] = x.lookup(st, fr, in)
	case *ssa.TypeAssert:
		return x.typeAssert(st, fr, b, idx, in, k)
	case *ssa.Range:
		fr.env[in] = x.rangeInit(st, fr, in)
	case *ssa.Next:
		fr.env[in] = x.rangeNext(st, fr, in)
	default:
		x.fail("unsupported value instruction %T (%s) in %s", v, v, fr.fn)
	}
	return false
}

func (x *Exec) tryZeroReifiable(st *State, t types.Type) Val {
	if p, ok := t.Underlying().(*types.Pointer); ok && typeString(p.Elem()) != tyBigInt {
		// pointer elements are stored by value; zero = fresh
		return x.e.fresh("zeroelem", x.e.sortOf(t))
	}
	return x.zeroVal(st, t)
}

func (x *Exec) fieldOf(st *State, s Val, t types.Type, field int) Val {
	switch sv := s.(type) {
	case *StructV:
		return sv.F[field]
	case T:
		u := t.Underlying().(*types.Struct)
		so := x.e.sortOf(t)
		f := u.Field(field)
		return x.e.reflect(st, T{S: fmt.Sprintf("(%s_%s %s)", so, f.Name(), sv.S), So: x.e.sortOf(f.Type())}, f.Type())
	case *OpaqueV:
		u := t.Underlying().(*types.Struct)
		name := u.Field(field).Name()
		if v, ok := sv.Data[name]; ok {
			return v
		}
		nv := x.havocValLike(st, x.tryZero(st, u.Field(field).Type()), name, u.Field(field).Type())
		if sv.Data == nil {
			sv.Data = map[string]Val{}
		}
		sv.Data[name] = nv
		return nv
	}
	x.fail("Field of %T", s)
	return nil
}

func (x *Exec) unop(st *State, fr *Frame, in *ssa.UnOp) Val {
	v := x.val(st, fr, in.X)
	switch in.Op {
	case token.MUL:
		return x.loadFrom(st, v, in.Type(), in.Pos())
	case token.NOT:
		return Not(v.(T))
	case token.SUB:
		t := v.(T)
		if t.So == SReal {
			return app(SReal, "-", t)
		}
		r := app(SInt, "-", t)
		if isUnsigned(in.Type()) {
			return WrapU(r, bitsOf(in.Type()))
		}
		return r
	case token.ARROW:
		x.fail("channel receive unsupported")
	case token.XOR:
		x.fail("bitwise complement unsupported at %s", x.posStr(in.Pos()))
	}
	x.fail("unsupported unop %s", in.Op)
	return nil
}

func isUnsigned(t types.Type) bool {
	b, ok := t.Underlying().(*types.Basic)
	return ok && b.Info()&types.IsUnsigned != 0
}

func bitsOf(t types.Type) int {
	b, ok := t.Underlying().(*types.Basic)
	if !ok {
		return 64
	}
	switch b.Kind() {
	case types.Uint8, types.Int8:
		return 8
	case types.Uint16, types.Int16:
		return 16
	case types.Uint32, types.Int32:
		return 32
	}
	return 64
}

func (x *Exec) binop(st *State, op token.Token, a, b Val, t types.Type, pos token.Pos) Val {
	// nil-ness comparisons
	switch av := a.(type) {
	case *ErrV:
		bn := x.nilness(st, b)
		r := Eq(av.IsNil, bn)
		if _, isErr := b.(*ErrV); isErr {
			// comparing two errors: equal if both nil; otherwise unknown identity
			r = Ite(And(av.IsNil, bn), TTrue, Ite(Or(av.IsNil, bn), TFalse, x.e.fresh("erreq", SBool)))
		}
		if op == token.NEQ {
			return Not(r)
		}
		return r
	case *PtrV:
		return x.cmpNil(st, op, a, b)
	case *SliceV, *IfaceV, *MapV, *ClosureV, *FuncV:
		return x.cmpNil(st, op, a, b)
	case NilV:
		return x.cmpNil(st, op, b, a)
	case *OpaqueV:
		return x.cmpNil(st, op, a, b)
	case *StructV:
		bs := b.(*StructV)
		eq := x.e.reify(st, av, t)
		eq2 := x.e.reify(st, bs, t)
		r := Eq(eq, eq2)
		if op == token.NEQ {
			return Not(r)
		}
		return r
	case *ArrV:
		r := Eq(x.e.reify(st, a, t), x.e.reify(st, b, t))
		if op == token.NEQ {
			return Not(r)
		}
		return r
	}
	if _, isNil := b.(NilV); isNil {
		return x.cmpNil(st, op, a, b)
	}
	at, ok := a.(T)
	bt, ok2 := b.(T)
	if !ok || !ok2 {
		x.fail("binop %s on %T,%T at %s", op, a, b, x.posStr(pos))
	}
	if at.So == SString {
		if (op == token.EQL || op == token.NEQ) && (at.Nil == "true" || bt.Nil == "true") {
			// comparison with the nil byte slice
			var r T
			switch {
			case at.Nil == "true" && bt.Nil == "true":
				r = TTrue
			case bt.Nil == "true":
				r = x.nilness(st, at)
			default:
				r = x.nilness(st, bt)
			}
			if op == token.NEQ {
				return Not(r)
			}
			return r
		}
		switch op {
		case token.ADD:
			return Concat(at, bt)
		case token.EQL:
			return Eq(at, bt)
		case token.NEQ:
			return Not(Eq(at, bt))
		case token.LSS:
			return app(SBool, "str.<", at, bt)
		case token.LEQ:
			return app(SBool, "str.<=", at, bt)
		case token.GTR:
			return app(SBool, "str.<", bt, at)
		case token.GEQ:
			return app(SBool, "str.<=", bt, at)
		}
		x.fail("string binop %s", op)
	}
	if at.So == SBool {
		switch op {
		case token.EQL:
			return Eq(at, bt)
		case token.NEQ:
			return Not(Eq(at, bt))
		case token.AND, token.LAND:
			return And(at, bt)
		case token.OR, token.LOR:
			return Or(at, bt)
		}
		x.fail("bool binop %s", op)
	}
	if at.So == SReal {
		switch op {
		case token.ADD:
			return app(SReal, "+", at, bt)
		case token.SUB:
			return app(SReal, "-", at, bt)
		case token.MUL:
			return app(SReal, "*", at, bt)
		case token.QUO:
			x.e.note("float64 arithmetic is treated as exact real arithmetic")
			return app(SReal, "/", at, bt)
		case token.EQL:
			return Eq(at, bt)
		case token.NEQ:
			return Not(Eq(at, bt))
		case token.LSS:
			return Lt(at, bt)
		case token.LEQ:
			return Le(at, bt)
		case token.GTR:
			return Gt(at, bt)
		case token.GEQ:
			return Ge(at, bt)
		}
		x.fail("real binop %s", op)
	}
	uns := isUnsigned(t)
	bits := bitsOf(t)
	wrap := func(r T) T {
		if uns {
			return WrapU(r, bits)
		}
		x.e.note("signed machine-integer arithmetic (int, int64) is treated as mathematical (no overflow)")
		return r
	}
	switch op {
	case token.ADD:
		if uns && bits == 64 {
			// counter increments (x + small literal) on uint64: assumed not to overflow
			if lb, ok := isLit(bt); ok && lb >= 0 && lb <= 16 {
				x.e.note("uint64 counter increments (x + small constant: ids, nonces, sequences) do not overflow 2^64")
				r := Add(at, bt)
				st.assume(Lt(r, BigLit(two64)), "uint64 counter does not overflow")
				return r
			}
		}
		return wrap(Add(at, bt))
	case token.SUB:
		return wrap(Sub(at, bt))
	case token.MUL:
		return wrap(Mul(at, bt))
	case token.QUO:
		x.panicIf(st, Eq(bt, IntLit(0)), "integer-divide-by-zero", pos)
		if uns {
			return EDiv(at, bt)
		}
		return TQuo(at, bt)
	case token.REM:
		x.panicIf(st, Eq(bt, IntLit(0)), "integer-divide-by-zero", pos)
		if uns {
			return EMod(at, bt)
		}
		return TRem(at, bt)
	case token.EQL:
		return Eq(at, bt)
	case token.NEQ:
		return Not(Eq(at, bt))
	case token.LSS:
		return Lt(at, bt)
	case token.LEQ:
		return Le(at, bt)
	case token.GTR:
		return Gt(at, bt)
	case token.GEQ:
		return Ge(at, bt)
	}
	x.fail("unsupported integer binop %s at %s", op, x.posStr(pos))
	return nil
}

// named binds a large term to a fresh constant (keeps VCs small).
func (x *Exec) named(st *State, t T, hint string) T {
	if len(t.S) < 40 {
		return t
	}
	c := x.e.fresh(hint, t.So)
	st.assume(Eq(c, t), "definition")
	return c
}

func (x *Exec) nilness(st *State, v Val) T {
	switch vv := v.(type) {
	case NilV:
		return TTrue
	case *ErrV:
		return vv.IsNil
	case *PtrV:
		return vv.Nil
	case *SliceV:
		if vv.Back < 0 {
			return TTrue
		}
		x.e.note("nil and empty slices are identified (slice == nil is read as len == 0)")
		return Eq(vv.Len, IntLit(0))
	case *IfaceV:
		if vv.Sym {
			return Eq(vv.Dyn, T{S: "dyn_nil", So: "Dyn"})
		}
		return BoolLit(vv.Typ == nil)
	case *MapV, *ClosureV, *FuncV, *CtxV:
		return TFalse
	case *OpaqueV:
		if n, ok := vv.Data["isnil"]; ok {
			return n.(T)
		}
		return TFalse
	case T:
		if vv.So == SString {
			if vv.Nil != "" {
				return T{S: vv.Nil, So: SBool}
			}
			x.e.note("nil and empty byte slices are identified (except for values returned by KVStore.Get)")
			return Eq(StrLen(vv), IntLit(0))
		}
	}
	x.fail("nilness of %T", v)
	return TFalse
}

func (x *Exec) cmpNil(st *State, op token.Token, a, b Val) Val {
	// the nil constant of an interface type
	if ib, ok := b.(*IfaceV); ok && !ib.Sym && ib.Typ == nil {
		b = NilV{}
	}
	if ia, ok := a.(*IfaceV); ok && !ia.Sym && ia.Typ == nil {
		a = NilV{}
	}
	if oa, ok := a.(*OpaqueV); ok {
		if _, isNil := b.(NilV); isNil {
			if n, has := oa.Data["isnil"]; has {
				r := n.(T)
				if op == token.NEQ {
					return Not(r)
				}
				return r
			}
		}
	}
	if oa, ok := a.(*OpaqueV); ok {
		if _, isNil := b.(NilV); !isNil {
			// identity of opaque values is unknown
			_ = oa
			r := x.e.fresh("opaqueeq", SBool)
			if op == token.NEQ {
				return Not(r)
			}
			return r
		}
	}
	_, an := a.(NilV)
	_, bn := b.(NilV)
	// a typed nil slice constant
	if sa, ok := a.(*SliceV); ok && sa.Back < 0 && !bn {
		if _, isSl := b.(*SliceV); isSl {
			an = true
		}
	}
	if sb, ok := b.(*SliceV); ok && sb.Back < 0 && !an {
		if _, isSl := a.(*SliceV); isSl {
			bn = true
		}
	}
	var r T
	switch {
	case an && bn:
		r = TTrue
	case bn:
		r = x.nilness(st, a)
	case an:
		r = x.nilness(st, b)
	default:
		// pointer identity
		pa, ok1 := a.(*PtrV)
		pb, ok2 := b.(*PtrV)
		if ok1 && ok2 {
			same := pa.Obj == pb.Obj && len(pa.Path) == len(pb.Path)
			r = Or(And(pa.Nil, pb.Nil), And(Not(pa.Nil), Not(pb.Nil), BoolLit(same)))
		} else if ia, ok := a.(*IfaceV); ok {
			ib, ok := b.(*IfaceV)
			if !ok {
				x.fail("compare iface with %T", b)
			}
			r = Eq(x.e.ifaceDyn(st, ia), x.e.ifaceDyn(st, ib))
		} else {
			x.fail("comparison of %T and %T", a, b)
		}
	}
	if op == token.NEQ {
		return Not(r)
	}
	return r
}

func (x *Exec) convert(st *State, v Val, from, to types.Type, pos token.Pos) Val {
	if isBytesLike(from) && isBytesLike(to) {
		return v
	}
	fb, fok := from.Underlying().(*types.Basic)
	tb, tok := to.Underlying().(*types.Basic)
	if fok && tok {
		t := v.(T)
		switch {
		case fb.Info()&types.IsInteger != 0 && tb.Info()&types.IsInteger != 0:
			if isUnsigned(to) {
				// to unsigned: reinterpret modulo 2^bits
				if isUnsigned(from) && bitsOf(from) <= bitsOf(to) {
					return t
				}
				return WrapU(t, bitsOf(to))
			}
			// to signed
			if !isUnsigned(from) && bitsOf(from) <= bitsOf(to) {
				return t
			}
			if isUnsigned(from) && bitsOf(from) < bitsOf(to) {
				return t
			}
			// uint64 -> int64 etc: two's complement reinterpretation
			bits := bitsOf(to)
			m := BigLit(new(bigInt).Lsh(bigOne, uint(bits)))
			h := BigLit(new(bigInt).Lsh(bigOne, uint(bits-1)))
			w := x.named(st, app(SInt, "mod", t, m), "w")
			return x.named(st, Ite(Ge(w, h), Sub(w, m), w), "conv")
		case fb.Info()&types.IsInteger != 0 && tb.Info()&types.IsFloat != 0:
			x.e.note("integer to float64 conversion is treated as exact")
			return app(SReal, "to_real", t)
		case fb.Info()&types.IsFloat != 0 && tb.Info()&types.IsFloat != 0:
			return t
		case fb.Info()&types.IsFloat != 0 && tb.Info()&types.IsInteger != 0:
			return app(SInt, "to_int", t)
		case fb.Info()&types.IsInteger != 0 && tb.Info()&types.IsString != 0:
			return app(SString, "str.from_code", t)
		}
	}
	if _, ok := v.(T); ok && x.e.sortOf(from) == x.e.sortOf(to) {
		return v
	}
	x.fail("unsupported conversion %s -> %s at %s", typeString(from), typeString(to), x.posStr(pos))
	return nil
}

func (x *Exec) indexAddr(st *State, fr *Frame, in *ssa.IndexAddr) Val {
	base := x.val(st, fr, in.X)
	idx := x.val(st, fr, in.Index).(T)
	switch bv := base.(type) {
	case *PtrV: // pointer to array
		arr := x.e.load(st, bv)
		if av, ok := arr.(*ArrV); ok {
			x.panicIf(st, Or(Lt(idx, IntLit(0)), Ge(idx, IntLit(int64(len(av.Elems))))), "index-out-of-range", in.Pos())
		}
		i := idx
		return &PtrV{Nil: TFalse, Obj: bv.Obj, Path: append(append([]PathEl(nil), bv.Path...), PathEl{Field: -1, Idx: &i}), Elem: in.Type().(*types.Pointer).Elem()}
	case *SliceV:
		x.panicIf(st, Or(Lt(idx, IntLit(0)), Ge(idx, bv.Len)), "index-out-of-range", in.Pos())
		if bv.Back < 0 {
			return &PtrV{Nil: TTrue}
		}
		i := Add(bv.Off, idx)
		return &PtrV{Nil: TFalse, Obj: bv.Back, Path: []PathEl{{Field: -1, Idx: &i}}, Elem: bv.Elem}
	case T:
		if bv.So == SString {
			// &bytes[i]: only reads are supported; represent as a pseudo pointer by materialising the byte
			x.panicIf(st, Or(Lt(idx, IntLit(0)), Ge(idx, StrLen(bv))), "index-out-of-range", in.Pos())
			o := x.e.newObj(st, app(SInt, "str.to_code", app(SString, "str.at", bv, idx)))
			return &PtrV{Nil: TFalse, Obj: o, Elem: in.Type().(*types.Pointer).Elem()}
		}
	}
	x.fail("IndexAddr on %T at %s", base, x.posStr(in.Pos()))
	return nil
}

func (x *Exec) index(st *State, fr *Frame, in *ssa.Index) Val {
	base := x.val(st, fr, in.X)
	idx := x.val(st, fr, in.Index).(T)
	switch bv := base.(type) {
	case T:
		if bv.So == SString {
			x.panicIf(st, Or(Lt(idx, IntLit(0)), Ge(idx, StrLen(bv))), "index-out-of-range", in.Pos())
			return app(SInt, "str.to_code", app(SString, "str.at", bv, idx))
		}
	case *ArrV:
		i, ok := isLit(idx)
		if !ok {
			x.fail("symbolic index into array value")
		}
		return bv.Elems[i]
	}
	x.fail("Index on %T", base)
	return nil
}

func (x *Exec) sliceOp(st *State, fr *Frame, in *ssa.Slice) Val {
	base := x.val(st, fr, in.X)
	var lo, hi *T
	if in.Low != nil {
		t := x.val(st, fr, in.Low).(T)
		lo = &t
	}
	if in.High != nil {
		t := x.val(st, fr, in.High).(T)
		hi = &t
	}
	switch bv := base.(type) {
	case T: // string / []byte
		ln := StrLen(bv)
		l := IntLit(0)
		if lo != nil {
			l = *lo
		}
		h := ln
		if hi != nil {
			h = *hi
		}
		x.panicIf(st, Or(Lt(l, IntLit(0)), Gt(l, h), Gt(h, ln)), "slice-bounds-out-of-range", in.Pos())
		if lo == nil && hi == nil {
			return bv
		}
		return app(SString, "str.substr", bv, l, Sub(h, l))
	case *PtrV: // pointer to array
		arr := x.e.load(st, bv)
		av, ok := arr.(*ArrV)
		if !ok {
			if at, ok := arr.(T); ok && at.So == SString {
				return at
			}
			x.fail("slice of pointer to %T", arr)
		}
		if isByte(av.Elem) && x.e.localArr[bv.Obj] && len(bv.Path) == 0 {
			// mutable view of a local byte array
			l := IntLit(0)
			if lo != nil {
				l = *lo
			}
			h := IntLit(int64(len(av.Elems)))
			if hi != nil {
				h = *hi
			}
			return &SliceV{Back: bv.Obj, Off: l, Len: Sub(h, l), Elem: av.Elem}
		}
		if isByte(av.Elem) {
			// byte array -> String term
			r := byteArrString(av)
			if lo != nil || hi != nil {
				l := IntLit(0)
				if lo != nil {
					l = *lo
				}
				h := IntLit(int64(len(av.Elems)))
				if hi != nil {
					h = *hi
				}
				if l.S == "0" && h.S == fmt.Sprint(len(av.Elems)) {
					return r
				}
				return app(SString, "str.substr", r, l, Sub(h, l))
			}
			return r
		}
		if len(bv.Path) != 0 {
			x.fail("slice of nested array")
		}
		l := IntLit(0)
		if lo != nil {
			l = *lo
		}
		h := IntLit(int64(len(av.Elems)))
		if hi != nil {
			h = *hi
		}
		x.e.objElem[bv.Obj] = av.Elem
		return &SliceV{Back: bv.Obj, Off: l, Len: Sub(h, l), Elem: av.Elem}
	case *SliceV:
		l := IntLit(0)
		if lo != nil {
			l = *lo
		}
		h := bv.Len
		if hi != nil {
			h = *hi
		}
		x.panicIf(st, Or(Lt(l, IntLit(0)), Gt(l, h)), "slice-bounds-out-of-range", in.Pos())
		if hi != nil {
			x.e.note("slicing beyond len up to cap is not modelled (treated as out of range)")
			x.panicIf(st, Gt(h, bv.Len), "slice-bounds-out-of-range", in.Pos())
		}
		return &SliceV{Back: bv.Back, Off: Add(bv.Off, l), Len: Sub(h, l), Elem: bv.Elem}
	}
	x.fail("Slice on %T at %s", base, x.posStr(in.Pos()))
	return nil
}

func (x *Exec) lookup(st *State, fr *Frame, in *ssa.Lookup) Val {
	base := x.val(st, fr, in.X)
	if bt, ok := base.(T); ok && bt.So == SString {
		idx := x.val(st, fr, in.Index).(T)
		x.panicIf(st, Or(Lt(idx, IntLit(0)), Ge(idx, StrLen(bt))), "index-out-of-range", in.Pos())
		return app(SInt, "str.to_code", app(SString, "str.at", bt, idx))
	}
	mv, ok := base.(*MapV)
	if !ok {
		if _, isNil := base.(NilV); isNil {
			x.fail("lookup in nil map")
		}
		x.fail("Lookup on %T", base)
	}
	mt := in.X.Type().Underlying().(*types.Map)
	key := x.e.reify(st, x.val(st, fr, in.Index), mt.Key())
	cur := st.Heap[mv.Obj].(T)
	so := cur.So
	has := T{S: fmt.Sprintf("(select (has_%s %s) %s)", so, cur.S, key.S), So: SBool}
	vs := x.e.sortOf(mt.Elem())
	raw := T{S: fmt.Sprintf("(select (val_%s %s) %s)", so, cur.S, key.S), So: vs}
	zero := x.e.reify(st, x.tryZeroReifiable(st, mt.Elem()), mt.Elem())
	val := x.e.reflect(st, Ite(has, raw, zero), mt.Elem())
	if in.CommaOk {
		return &TupleV{Vs: []Val{val, has}}
	}
	return val
}

// typeAssert: on known dynamic types decide statically; on symbolic Dyn produce symbolic ok / fork.
func (x *Exec) typeAssert(st *State, fr *Frame, b *ssa.BasicBlock, idx int, in *ssa.TypeAssert, k func(*State, Val)) bool {
	v := x.val(st, fr, in.X)
	cont := func(s2 *State, f2 *Frame, r Val) {
		f2.env[in] = r
		x.execInstrs(s2, f2, b, idx+1, k)
	}
	if ev, ok := v.(*ErrV); ok {
		// type assertion on an error value: unknown dynamic type
		okT := And(Not(ev.IsNil), x.e.fresh("errtypeok", SBool))
		val := x.havocValLike(st, x.tryZero(st, in.AssertedType), "asserted", in.AssertedType)
		if in.CommaOk {
			cont(st, fr, &TupleV{Vs: []Val{val, okT}})
			return true
		}
		x.panicIf(st, Not(okT), "type-assertion", in.Pos())
		cont(st, fr, val)
		return true
	}
	iv, ok := v.(*IfaceV)
	if !ok {
		if ov, isO := v.(*OpaqueV); isO {
			// opaque interface value asserted to an interface type: keep as is
			if _, toIface := in.AssertedType.Underlying().(*types.Interface); toIface {
				if in.CommaOk {
					cont(st, fr, &TupleV{Vs: []Val{ov, TTrue}})
				} else {
					cont(st, fr, ov)
				}
				return true
			}
		}
		x.fail("TypeAssert on %T at %s", v, x.posStr(in.Pos()))
	}
	_, toIface := in.AssertedType.Underlying().(*types.Interface)
	if !iv.Sym {
		var okB bool
		var val Val
		if iv.Typ == nil {
			okB = false
		} else if toIface {
			okB = types.Implements(iv.Typ, in.AssertedType.Underlying().(*types.Interface))
			val = iv
		} else {
			okB = types.Identical(iv.Typ, in.AssertedType)
			val = iv.V
		}
		if !okB {
			val = x.tryZero(st, in.AssertedType)
		}
		if in.CommaOk {
			cont(st, fr, &TupleV{Vs: []Val{val, BoolLit(okB)}})
			return true
		}
		if !okB {
			x.panicIf(st, TTrue, "type-assertion", in.Pos())
			return true
		}
		cont(st, fr, val)
		return true
	}
	// symbolic Dyn
	if toIface {
		ifc := in.AssertedType.Underlying().(*types.Interface)
		var oks []T
		// the message types implementing the asserted interface are candidates even if no value of theirs was seen yet
		if n, ok := in.AssertedType.(*types.Named); ok && n.Obj().Pkg() != nil && strings.Contains(n.Obj().Pkg().Path(), "MinterTeam/mhub2") {
			for _, c := range x.e.implementers(in.AssertedType) {
				x.e.dynConFor(c)
			}
		}
		for _, c := range x.e.dynCandidates(iv) {
			if types.Implements(c, ifc) {
				dc := x.e.dynConFor(c)
				oks = append(oks, T{S: fmt.Sprintf("((_ is %s) %s)", dc.Name, iv.Dyn.S), So: SBool})
			}
		}
		okT := Or(oks...)
		if len(oks) == 0 {
			// no known message type implements the interface: the outcome of the assertion is unknown, not false
			x.e.note("type assertion to " + typeString(in.AssertedType) + " on a value of unknown dynamic type: outcome left open")
			okT = x.e.fresh("assertok", SBool)
		}
		if in.CommaOk {
			cont(st, fr, &TupleV{Vs: []Val{iv, okT}})
			return true
		}
		x.panicIf(st, Not(okT), "type-assertion", in.Pos())
		cont(st, fr, iv)
		return true
	}
	dc := x.e.dynConFor(in.AssertedType)
	okT := T{S: fmt.Sprintf("((_ is %s) %s)", dc.Name, iv.Dyn.S), So: SBool}
	payload := T{S: fmt.Sprintf("(%s_v %s)", dc.Name, iv.Dyn.S), So: dc.Sort}
	mk := func(s *State) Val { return x.e.reflect(s, payload, in.AssertedType) }
	if in.CommaOk {
		// fork so that the payload is only reflected on the ok path
		x.branch(st, fr, b, okT, func(s2 *State, f2 *Frame) {
			cont(s2, f2, &TupleV{Vs: []Val{mk(s2), TTrue}})
		}, func(s2 *State, f2 *Frame) {
			cont(s2, f2, &TupleV{Vs: []Val{x.tryZero(s2, in.AssertedType), TFalse}})
		})
		return true
	}
	x.panicIf(st, Not(okT), "type-assertion", in.Pos())
	cont(st, fr, mk(st))
	return true
}

// dynCandidates: concrete types a symbolic interface value may hold.
func (e *Engine) dynCandidates(iv *IfaceV) []types.Type {
	var res []types.Type
	for _, c := range e.dynCons {
		res = append(res, c.Typ)
	}
	return res
}

// ---------------------------------------------------------------------------
// range over slices compiles to index loops; range over maps / strings uses Range/Next.

type rangeIter struct {
	mapObj int
	mt     *types.Map
	isStr  bool
}

func (x *Exec) rangeInit(st *State, fr *Frame, in *ssa.Range) Val {
	v := x.val(st, fr, in.X)
	if mv, ok := v.(*MapV); ok {
		d := map[string]Val{"map": mv}
		if kt := mv.mapKeySort(x, st, in.X.Type()); kt != "" {
			// ghost: the set of keys this range statement has produced so far. A Go range over a map produces every
			// key at most once (entries added during the iteration may or may not be produced), so Next only yields
			// keys outside the set; contracts read it as visited(m, k).
			vis := x.e.newObj(st, T{S: fmt.Sprintf("((as const (Array %s Bool)) false)", kt), So: "(Array " + kt + " Bool)"})
			d["visited"] = IntLit(int64(vis))
			if x.e.mapVisited == nil {
				x.e.mapVisited = map[int]int{}
			}
			x.e.mapVisited[mv.Obj] = vis
		}
		return &OpaqueV{Tag: "mapiter", Data: d}
	}
	x.fail("range over %T unsupported at %s", v, x.posStr(in.Pos()))
	return nil
}

// mapKeySort: the SMT sort of the keys of a map value held as a term, "" when the map is not reified.
func (mv *MapV) mapKeySort(x *Exec, st *State, t types.Type) string {
	cur, ok := st.Heap[mv.Obj].(T)
	if !ok || !strings.HasPrefix(cur.So, "Map_") {
		return ""
	}
	if mt, ok := t.Underlying().(*types.Map); ok {
		return x.e.sortOf(mt.Key())
	}
	return ""
}

func (x *Exec) rangeNext(st *State, fr *Frame, in *ssa.Next) Val {
	if cc := x.commute; cc != nil && in == cc.next {
		// commutation analysis: this iteration visits the given key
		it := x.val(st, fr, in.Iter).(*OpaqueV)
		mv := it.Data["map"].(*MapV)
		tt := in.Type().(*types.Tuple)
		cur := st.Heap[mv.Obj].(T)
		kT, vT := tt.At(1).Type(), tt.At(2).Type()
		kterm := cc.kv[0].(T)
		var kv, vv Val = x.tryZero(st, kT), x.tryZero(st, vT)
		if !isInvalid(kT) {
			kv = x.e.reflect(st, kterm, kT)
		}
		if !isInvalid(vT) {
			vv = x.e.reflect(st, T{S: fmt.Sprintf("(select (val_%s %s) %s)", cur.So, cur.S, kterm.S), So: x.e.sortOf(vT)}, vT)
		}
		return &TupleV{Vs: []Val{TTrue, kv, vv}}
	}
	it := x.val(st, fr, in.Iter).(*OpaqueV)
	mv := it.Data["map"].(*MapV)
	tt := in.Type().(*types.Tuple)
	cur := st.Heap[mv.Obj].(T)
	so := cur.So
	// nondeterministic iteration: (ok, k, v) with ok => has(k) — order and completeness are left to the loop invariant.
	x.e.note("range over a map yields an arbitrary present key each iteration, each key at most once; that every key is visited is not modelled (left to the loop invariant)")
	ok := x.e.fresh("mapnext_ok", SBool)
	kT := tt.At(1).Type()
	vT := tt.At(2).Type()
	var kv, vv Val
	kv = x.tryZero(st, kT)
	vv = x.tryZero(st, vT)
	if !isInvalid(kT) {
		ks := x.e.sortOf(kT)
		kterm := x.e.fresh("mapkey", ks)
		st.assume(Implies(ok, T{S: fmt.Sprintf("(select (has_%s %s) %s)", so, cur.S, kterm.S), So: SBool}), "range yields present keys")
		if vo, has := it.Data["visited"]; has {
			obj := int(mustLit(vo.(T)))
			if vis, isT := st.Heap[obj].(T); isT {
				x.e.note("a range over a map yields every key at most once (ghost set visited(m, k))")
				st.assume(Implies(ok, T{S: fmt.Sprintf("(not (select %s %s))", vis.S, kterm.S), So: SBool}), "range yields every key at most once")
				st.Heap[obj] = T{S: fmt.Sprintf("(ite %s (store %s %s true) %s)", ok.S, vis.S, kterm.S, vis.S), So: vis.So}
				if st.Written != nil {
					st.Written[obj] = true
				}
			}
		}
		kv = x.e.reflect(st, kterm, kT)
		if !isInvalid(vT) {
			vs := x.e.sortOf(vT)
			vv = x.e.reflect(st, T{S: fmt.Sprintf("(select (val_%s %s) %s)", so, cur.S, kterm.S), So: vs}, vT)
		}
	}
	return &TupleV{Vs: []Val{ok, kv, vv}}
}

func isInvalid(t types.Type) bool {
	b, ok := t.(*types.Basic)
	return ok && b.Kind() == types.Invalid
}

// ---------------------------------------------------------------------------
// Calls.

type callInfo struct {
	pos    token.Pos
	fr     *Frame
	instr  ssa.Instruction
	name   string
	sig    *types.Signature
	common *ssa.CallCommon
}

func (x *Exec) call(st *State, fr *Frame, instr ssa.Instruction, cc *ssa.CallCommon, k func(*State, *Frame, Val)) {
	var args []Val
	ci := &callInfo{pos: instr.Pos(), fr: fr, instr: instr, sig: cc.Signature(), common: cc}
	if cc.IsInvoke() {
		recv := x.val(st, fr, cc.Value)
		for _, a := range cc.Args {
			args = append(args, x.val(st, fr, a))
		}
		x.invoke(st, fr, ci, recv, cc.Value.Type(), cc.Method, args, k)
		return
	}
	for _, a := range cc.Args {
		args = append(args, x.val(st, fr, a))
	}
	switch fv := cc.Value.(type) {
	case *ssa.Builtin:
		k(st, fr, x.builtin(st, fr, ci, fv.Name(), args, cc))
		return
	case *ssa.Function:
		x.callFunc(st, fr, ci, fv, args, k)
		return
	}
	callee := x.val(st, fr, cc.Value)
	switch cv := callee.(type) {
	case *ClosureV:
		x.callClosure(st, fr, ci, cv, args, k)
	case *FuncV:
		x.callFunc(st, fr, ci, cv.Fn, args, k)
	case *CommitV:
		// commit of a cache context: install child world into parent
		for g, t := range st.Worlds[cv.From] {
			st.Worlds[cv.To][g] = t
			if st.GWrit != nil {
				st.GWrit[g] = true
			}
		}
		k(st, fr, nil)
	case *OpaqueV:
		if h, ok := opaqueCallModels[cv.Tag]; ok {
			h(x, st, ci, cv, args, func(s2 *State, r Val) { k(s2, s2.top(), r) })
			return
		}
		x.fail("call of opaque function value %s at %s", cv.Tag, x.posStr(ci.pos))
	default:
		x.fail("call of %T at %s", callee, x.posStr(ci.pos))
	}
}

func (x *Exec) callClosure(st *State, fr *Frame, ci *callInfo, cv *ClosureV, args []Val, k func(*State, *Frame, Val)) {
	fn := cv.Fn
	if fn.Blocks == nil {
		x.fail("closure without body")
	}
	nfr := &Frame{fn: fn, env: map[ssa.Value]Val{}, loops: map[int]*loopRun{}, loopSet: findLoops(fn)}
	nfr.spec = x.specs.lookup(fn)
	for i, p := range fn.Params {
		nfr.env[p] = args[i]
	}
	for i, fvv := range fn.FreeVars {
		nfr.env[fvv] = cv.Bindings[i]
	}
	nfr.args = args
	st.Frames = append(st.Frames, nfr)
	x.execBlock(st, nfr, fn.Blocks[0], nil, func(s2 *State, r Val) {
		s2.Frames = s2.Frames[:len(s2.Frames)-1]
		k(s2, s2.top(), r)
	})
}

func fullName(fn *ssa.Function) string { return fn.String() }

// callSiteNumber: 1-based position of the call at pos among the calls of callee in the root function (source order).
func (x *Exec) callSiteNumber(callee *ssa.Function, pos token.Pos) int {
	var ps []token.Pos
	var visit func(f *ssa.Function)
	visit = func(f *ssa.Function) {
		for _, b := range f.Blocks {
			for _, in := range b.Instrs {
				if c, ok := in.(*ssa.Call); ok {
					if sc := c.Common().StaticCallee(); sc == callee {
						ps = append(ps, c.Pos())
					}
				}
			}
		}
		for _, a := range f.AnonFuncs {
			visit(a)
		}
	}
	visit(x.rootFn)
	sort.Slice(ps, func(i, j int) bool { return ps[i] < ps[j] })
	for i, p := range ps {
		if p == pos {
			return i + 1
		}
	}
	return 0
}

// coerceBufs: mutable byte buffers passed to library models become their current contents.
func (x *Exec) coerceBufs(st *State, args []Val) []Val {
	var out []Val
	for i, a := range args {
		if sl, ok := a.(*SliceV); ok && sl.Back >= 0 && isByte(sl.Elem) {
			if cur, isT := st.Heap[sl.Back].(T); isT && cur.So == SString {
				if out == nil {
					out = append([]Val(nil), args...)
				}
				if sl.Off.S == "0" {
					if seg, ok := x.bufSegments(st, sl, cur); ok {
						cur = seg
					}
					out[i] = cur
				} else {
					out[i] = app(SString, "str.substr", cur, sl.Off, sl.Len)
				}
			} else if av, isArr := st.Heap[sl.Back].(*ArrV); isArr {
				if out == nil {
					out = append([]Val(nil), args...)
				}
				s := byteArrString(av)
				if sl.Off.S != "0" || sl.Len.S != fmt.Sprint(len(av.Elems)) {
					s = app(SString, "str.substr", s, sl.Off, sl.Len)
				}
				out[i] = s
			}
		}
	}
	if out == nil {
		return args
	}
	return out
}

func (x *Exec) callFunc(st *State, fr *Frame, ci *callInfo, fn *ssa.Function, args []Val, k func(*State, *Frame, Val)) {
	name := fullName(fn)
	ci.name = name
	if _, isLib := libModels[name]; isLib || fn.Blocks == nil {
		args = x.coerceBufs(st, args)
	}
	if x.root != nil && x.root.AtCalls != nil && x.quiet == 0 {
		if cls, ok := x.root.AtCalls[shortFuncName(fn)]; ok {
			c := x.envFor(st, x.entry, st.Frames[0], nil)
			c.frames = st.Frames
			sigp := fn.Signature.Params()
			off := 0
			if fn.Signature.Recv() != nil {
				off = 1
			}
			for i, a := range args {
				if i-off >= 0 && i-off < sigp.Len() {
					c.names["arg_"+sigp.At(i-off).Name()] = cv{V: a, T: sigp.At(i-off).Type()}
				}
			}
			siteNo := x.callSiteNumber(fn, ci.pos)
			for _, cl := range cls {
				if !cl.appliesTo(x.root.Prop) || (cl.Site != 0 && cl.Site != siteNo) {
					continue
				}
				x.emit(st, "assert", x.oblName("at-call:"+shortFuncName(fn)+"/"+cl.Name), cl.Line, x.evalClause(c, cl))
			}
		}
	}
	if h, ok := libModels[name]; ok {
		h(x, st, ci, args, func(s2 *State, r Val) { k(s2, s2.top(), r) })
		return
	}
	if fn.Blocks != nil && strings.Contains(name, "MinterTeam/mhub2") {
		spec := x.specs.lookup(fn)
		if spec != nil && spec.HasContract() && fn != x.rootFn && !x.specs.forceInline[name] && !spec.InlineAtCalls && (!x.effectsMode || (spec.Pure && !strings.Contains(fn.String(), "Keeper"))) {
			x.byContract[name] = true
			x.applyContract(st, fr, ci, fn, spec, args, k)
			return
		}
		if spec != nil && fn == x.rootFn && !spec.HasContract() {
			x.fail("recursive call of %s without contract", name)
		}
		if fn == x.rootFn {
			x.byContract[name] = true
			x.applyContract(st, fr, ci, fn, spec, args, k)
			return
		}
		x.inlined[name] = true
		x.execFunc(st, fn, args, spec, func(s2 *State, r Val) { k(s2, s2.top(), r) })
		return
	}
	// synthetic wrappers (bound methods, thunks) have bodies too
	if fn.Blocks != nil && fn.Synthetic != "" {
		x.execFunc(st, fn, args, nil, func(s2 *State, r Val) { k(s2, s2.top(), r) })
		return
	}
	if r, ok := x.harmlessCall(st, name, ci); ok {
		k(st, fr, r)
		return
	}
	x.fail("unmodelled call %s at %s", name, x.posStr(ci.pos))
}

// harmlessCall: calls that do not touch modelled state and whose results are irrelevant (logging, formatting, events).
var harmlessPrefixes = []string{
	"fmt.", "strconv.", "(github.com/tendermint/tendermint/libs/log.Logger)", "github.com/cosmos/cosmos-sdk/types.NewEvent", "github.com/cosmos/cosmos-sdk/types.NewAttribute",
	"(*github.com/cosmos/cosmos-sdk/types.EventManager)", "github.com/cosmos/cosmos-sdk/types/errors.", "(*github.com/cosmos/cosmos-sdk/types/errors.Error)", "errors.New", "github.com/pkg/errors.",
	"(github.com/cosmos/cosmos-sdk/types.Context).EventManager", "(github.com/cosmos/cosmos-sdk/types.Context).Logger", "strings.Join", "github.com/armon/go-metrics", "github.com/cosmos/cosmos-sdk/telemetry",
	"(github.com/cosmos/cosmos-sdk/types.Coins).String", "(github.com/cosmos/cosmos-sdk/types.Coin).String", "(github.com/cosmos/cosmos-sdk/types.Int).String", "(github.com/cosmos/cosmos-sdk/types.Dec).String",
	"(github.com/cosmos/cosmos-sdk/types.Events)", "encoding/hex.EncodeToString",
	"(github.com/MinterTeam/mhub2/module/x/mhub2/types.MhubHooks)",
}

func (x *Exec) harmlessCall(st *State, name string, ci *callInfo) (Val, bool) {
	okp := false
	for _, p := range harmlessPrefixes {
		if strings.HasPrefix(name, p) {
			okp = true
			break
		}
	}
	if !okp {
		return nil, false
	}
	x.unmodelled[name] = true
	return x.freshResults(st, ci.sig, name), true
}

func (x *Exec) freshResults(st *State, sig *types.Signature, hint string) Val {
	res := sig.Results()
	mk := func(t types.Type) Val {
		if isErrorType(t) {
			// error constructors return non-nil errors
			return &ErrV{IsNil: TFalse}
		}
		return x.havocValLike(st, x.tryZero(st, t), "r", t)
	}
	switch res.Len() {
	case 0:
		return nil
	case 1:
		return mk(res.At(0).Type())
	}
	t := &TupleV{}
	for i := 0; i < res.Len(); i++ {
		t.Vs = append(t.Vs, mk(res.At(i).Type()))
	}
	return t
}

// invokeSiteNumber: ordinal (source order) of the invoke of method name at pos within the root function.
func (x *Exec) invokeSiteNumber(name string, pos token.Pos) int {
	var ps []token.Pos
	var visit func(f *ssa.Function)
	visit = func(f *ssa.Function) {
		for _, b := range f.Blocks {
			for _, in := range b.Instrs {
				if c, ok := in.(*ssa.Call); ok && c.Common().IsInvoke() && c.Common().Method.Name() == name {
					ps = append(ps, c.Pos())
				}
			}
		}
		for _, a := range f.AnonFuncs {
			visit(a)
		}
	}
	visit(x.rootFn)
	sort.Slice(ps, func(i, j int) bool { return ps[i] < ps[j] })
	for i, p := range ps {
		if p == pos {
			return i + 1
		}
	}
	return 0
}

func (x *Exec) invoke(st *State, fr *Frame, ci *callInfo, recv Val, recvT types.Type, m *types.Func, args []Val, k func(*State, *Frame, Val)) {
	key := "iface:" + typeString(recvT) + "." + m.Name()
	ci.name = key
	// call-site assertions on interface methods are keyed by the method name
	if x.root != nil && x.root.AtCalls != nil && x.quiet == 0 && len(st.Frames) == 1 {
		if cls, ok := x.root.AtCalls[m.Name()]; ok {
			c := x.envFor(st, x.entry, st.Frames[0], nil)
			c.frames = st.Frames
			sigp := m.Type().(*types.Signature).Params()
			for i, a := range args {
				if i < sigp.Len() {
					c.names["arg_"+sigp.At(i).Name()] = cv{V: a, T: sigp.At(i).Type()}
					c.names[fmt.Sprintf("arg_%d", i)] = cv{V: a, T: sigp.At(i).Type()} // unnamed interface parameters
				}
			}
			siteNo := x.invokeSiteNumber(m.Name(), ci.pos)
			for _, cl := range cls {
				if !cl.appliesTo(x.root.Prop) || (cl.Site != 0 && cl.Site != siteNo) {
					continue
				}
				x.emit(st, "assert", x.oblName("at-call:"+m.Name()+"/"+cl.Name), cl.Line, x.evalClause(c, cl))
			}
		}
	}
	if ev, ok := recv.(*ErrV); ok {
		_ = ev
		if m.Name() == "Error" {
			k(st, fr, x.e.fresh("errmsg", SString))
			return
		}
	}
	if h, ok := ifaceModels[key]; ok {
		args = x.coerceBufs(st, args)
		h(x, st, ci, recv, args, func(s2 *State, r Val) { k(s2, s2.top(), r) })
		return
	}
	// models keyed by method name on opaque receivers
	if ov, ok := recv.(*OpaqueV); ok {
		if h, ok := ifaceModels["opaque:"+ov.Tag+"."+m.Name()]; ok {
			args = x.coerceBufs(st, args)
			h(x, st, ci, recv, args, func(s2 *State, r Val) { k(s2, s2.top(), r) })
			return
		}
	}
	if ov, ok := recv.(*OpaqueV); ok && m.Name() == "Handle" && strings.Contains(ov.Tag, "Handle(") {
		// bind: Keeper.ExternalEventProcessor is assigned only in SetStakingKeeper with an ExternalEventProcessor value
		// (checked by the F obligation bind/ExternalEventProcessor)
		inOracle := false
		for f := fr.fn; f != nil; f = f.Parent() {
			if f.Pkg != nil && strings.Contains(f.Pkg.Pkg.Path(), "/x/oracle") {
				inOracle = true
			}
		}
		for _, p := range x.e.prog.AllPackages() {
			if inOracle && p.Pkg != nil && strings.HasSuffix(p.Pkg.Path(), "/x/oracle/keeper") {
				// bind: the oracle Keeper.AttestationHandler is assigned only in NewKeeper with an AttestationHandler value
				pt := p.Type("AttestationHandler").Type()
				fn := x.e.prog.LookupMethod(pt, p.Pkg, "Handle")
				x.e.note("bind: oracle Keeper.AttestationHandler.Handle = (AttestationHandler).Handle (field written only in NewKeeper)")
				rv := x.e.freshVal(st, "handler", pt)
				x.callFunc(st, fr, ci, fn, append([]Val{rv}, args...), k)
				return
			}
			if !inOracle && p.Pkg != nil && strings.HasSuffix(p.Pkg.Path(), "/x/mhub2/keeper") {
				pt := p.Type("ExternalEventProcessor").Type()
				fn := x.e.prog.LookupMethod(pt, p.Pkg, "Handle")
				x.e.note("bind: Keeper.ExternalEventProcessor.Handle = (ExternalEventProcessor).Handle (field written only in SetStakingKeeper)")
				rv := x.e.freshVal(st, "processor", pt)
				x.callFunc(st, fr, ci, fn, append([]Val{rv}, args...), k)
				return
			}
		}
	}
	iv, ok := recv.(*IfaceV)
	if !ok {
		if r, ok := x.harmlessCall(st, "("+typeString(recvT)+")."+m.Name(), ci); ok {
			k(st, fr, r)
			return
		}
		x.fail("invoke %s on %T at %s", key, recv, x.posStr(ci.pos))
	}
	if !iv.Sym {
		if iv.Typ == nil {
			x.panicIf(st, TTrue, "nil-interface-call", ci.pos)
			return
		}
		fn := x.e.prog.LookupMethod(iv.Typ, m.Pkg(), m.Name())
		if fn == nil {
			x.fail("method %s not found on %s", m.Name(), typeString(iv.Typ))
		}
		x.callFunc(st, fr, ci, fn, append([]Val{iv.V}, args...), k)
		return
	}
	// symbolic: fork over implementers of the static interface type
	cands := x.e.implementers(recvT)
	if len(cands) == 0 {
		x.fail("invoke %s on symbolic interface without known implementers", key)
	}
	x.e.note("interface values of type " + typeString(recvT) + " hold one of the implementing types declared in the repository")
	var isAny []T
	for _, c := range cands {
		dc := x.e.dynConFor(c)
		isAny = append(isAny, T{S: fmt.Sprintf("((_ is %s) %s)", dc.Name, iv.Dyn.S), So: SBool})
	}
	x.panicIf(st, Eq(iv.Dyn, T{S: "dyn_nil", So: "Dyn"}), "nil-interface-call", ci.pos)
	st.assume(Or(isAny...), "dynamic type is one of the implementers")
	// if the path condition already fixes the dynamic type, do not fork again
	for i := range cands {
		for _, h := range st.PC {
			if h.S == isAny[i].S {
				cands = cands[i : i+1]
				isAny = isAny[i : i+1]
				goto pruned
			}
		}
	}
pruned:
	for i, c := range cands {
		s2 := st
		f2 := fr
		if i < len(cands)-1 {
			s2 = st.clone()
			f2 = s2.top()
		}
		dc := x.e.dynConFor(c)
		s2.assume(isAny[i], "dynamic type "+typeString(c))
		payload := T{S: fmt.Sprintf("(%s_v %s)", dc.Name, iv.Dyn.S), So: dc.Sort}
		rv := x.e.reflect(s2, payload, c)
		fn := x.e.prog.LookupMethod(c, m.Pkg(), m.Name())
		if fn == nil {
			x.fail("method %s not found on %s", m.Name(), typeString(c))
		}
		x.paths++
		x.tryPath(func() { x.callFunc(s2, f2, ci, fn, append([]Val{rv}, args...), k) })
	}
}

func (x *Exec) builtin(st *State, fr *Frame, ci *callInfo, name string, args []Val, cc *ssa.CallCommon) Val {
	switch name {
	case "len":
		switch a := args[0].(type) {
		case T:
			if a.So == SString {
				return StrLen(a)
			}
		case *SliceV:
			return a.Len
		case *ArrV:
			return IntLit(int64(len(a.Elems)))
		case NilV:
			return IntLit(0)
		case *MapV:
			x.e.note("len(map) is an unconstrained non-negative integer, zero iff no key is present is not modelled")
			n := x.e.fresh("maplen", SInt)
			st.assume(Ge(n, IntLit(0)), "len >= 0")
			return n
		}
		x.fail("len of %T", args[0])
	case "cap":
		if a, ok := args[0].(*SliceV); ok {
			return a.Len
		}
	case "append":
		return x.appendOp(st, args, cc.Args[0].Type())
	case "copy":
		// copy into a mutable byte buffer of the same length as the source
		dst, ok := args[0].(*SliceV)
		src, ok2 := args[1].(T)
		if sb, isBuf := args[1].(*SliceV); isBuf && isByte(sb.Elem) {
			if c := x.coerceBufs(st, []Val{sb}); len(c) == 1 {
				if t, isT := c[0].(T); isT {
					src, ok2 = t, true
				}
			}
		}
		if ok && ok2 && isByte(dst.Elem) {
			if av, isArr := st.Heap[dst.Back].(*ArrV); isArr && dst.Off.S == "0" {
				// copy into a local byte array: element i becomes src[i] for i < len(src)
				n := &ArrV{Elem: av.Elem}
				sl := StrLen(src)
				for i, old := range av.Elems {
					var el T
					if ln, lit := isLit(sl); lit && src.Segs != nil && len(src.Segs) == 1 && src.Segs[0].Kind == "const" {
						if int64(i) < ln {
							el = IntLit(int64(src.Segs[0].Lit[i]))
						} else {
							el = old.(T)
						}
					} else {
						el = Ite(Lt(IntLit(int64(i)), sl), app(SInt, "str.to_code", app(SString, "str.at", src, IntLit(int64(i)))), old.(T))
					}
					n.Elems = append(n.Elems, el)
				}
				st.Heap[dst.Back] = n
				if st.Written != nil {
					st.Written[dst.Back] = true
				}
				return app(SInt, "min_", dst.Len, sl)
			}
			if cur, isT := st.Heap[dst.Back].(T); isT && cur.So == SString {
				if bi := st.Bufs[dst.Back]; bi != nil {
					if off, lit := isLit(dst.Off); lit {
						bi = &bufInfo{N: bi.N, Writes: append(append([]bufWrite(nil), bi.Writes...), bufWrite{Off: off, Src: src, ToEnd: dst.Len.S == Sub(bi.N, dst.Off).S || (off == 0 && dst.Len.S == bi.N.S)})}
					} else {
						bi = &bufInfo{N: bi.N, Broken: true}
					}
					st.Bufs[dst.Back] = bi
				}
				defer func() {
					if bi := st.Bufs[dst.Back]; bi != nil {
						if cur, ok := st.Heap[dst.Back].(T); ok {
							nb := *bi
							nb.Cur = cur.S
							st.Bufs[dst.Back] = &nb
						}
					}
				}()
				if dst.Len.S == StrLen(src).S && dst.Off.S == "0" {
					// destination has exactly the source's length: a full copy
					st.Heap[dst.Back] = T{S: src.S, So: SString}
					if st.Written != nil {
						st.Written[dst.Back] = true
					}
					return dst.Len
				}
				n := app(SInt, "min_", dst.Len, StrLen(src))
				if dst.Off.S != "0" {
					// write into the middle of the buffer: prefix ++ copied bytes ++ rest
					st.Heap[dst.Back] = app(SString, "str.++", app(SString, "str.substr", cur, IntLit(0), dst.Off), app(SString, "str.substr", src, IntLit(0), n), app(SString, "str.substr", cur, Add(dst.Off, n), Sub(dst.Len, n)))
					if st.Written != nil {
						st.Written[dst.Back] = true
					}
					return n
				}
				st.Heap[dst.Back] = app(SString, "str.++", app(SString, "str.substr", src, IntLit(0), n), app(SString, "str.substr", cur, n, Sub(dst.Len, n)))
				if st.Written != nil {
					st.Written[dst.Back] = true
				}
				return n
			}
		}
		x.fail("copy unsupported for %T <- %T at %s", args[0], args[1], x.posStr(ci.pos))
	case "delete":
		mv := args[0].(*MapV)
		mt := cc.Args[0].Type().Underlying().(*types.Map)
		key := x.e.reify(st, args[1], mt.Key())
		cur := st.Heap[mv.Obj].(T)
		so := cur.So
		st.Heap[mv.Obj] = T{S: fmt.Sprintf("(mk_%s (store (has_%s %s) %s false) (val_%s %s))", so, so, cur.S, key.S, so, cur.S), So: so}
		return nil
	case "ssa:wrapnilchk":
		return args[0]
	}
	x.fail("unsupported builtin %s at %s", name, x.posStr(ci.pos))
	return nil
}

func (x *Exec) appendOp(st *State, args []Val, t types.Type) Val {
	a, b := args[0], args[1]
	if at, ok := a.(T); ok && at.So == SString {
		bt, ok := b.(T)
		if !ok {
			if _, isNil := b.(NilV); isNil {
				return at
			}
			x.fail("append bytes with %T", b)
		}
		return Concat(at, bt)
	}
	if _, isNil := a.(NilV); isNil {
		if bt, ok := b.(T); ok && bt.So == SString {
			return bt
		}
	}
	et := t.Underlying().(*types.Slice).Elem()
	var as *SliceV
	switch av := a.(type) {
	case *SliceV:
		as = av
	case NilV:
		as = &SliceV{Back: -1, Off: IntLit(0), Len: IntLit(0), Elem: et}
	default:
		x.fail("append to %T", a)
	}
	bs, ok := b.(*SliceV)
	if !ok {
		if _, isNil := b.(NilV); isNil {
			return as
		}
		x.fail("append of %T", b)
	}
	es := x.e.sortOf(et)
	var base T
	if as.Back < 0 {
		base = x.e.fresh("arr", "(Array Int "+es+")")
	} else {
		if as.Off.S != "0" {
			x.fail("append to slice with offset")
		}
		base = x.e.backingArray(st, as)
	}
	x.e.note("append always copies into a fresh backing array (aliasing through spare capacity is not modelled)")
	// appended elements: concrete count if b's backing is an ArrV slice with literal len
	n, okN := isLit(bs.Len)
	if !okN || n > 16 {
		x.fail("append of a slice with symbolic length")
	}
	cur := base
	for i := int64(0); i < n; i++ {
		idx := Add(bs.Off, IntLit(i))
		el := x.e.getPath(st, st.Heap[bs.Back], []PathEl{{Field: -1, Idx: &idx}})
		var elT T
		if t, ok := el.(T); ok && !isExecLevel(st.Heap[bs.Back]) {
			elT = t
		} else {
			elT = x.e.reify(st, el, et)
		}
		cur = T{S: fmt.Sprintf("(store %s %s %s)", cur.S, Add(as.Len, IntLit(i)).S, elT.S), So: base.So}
	}
	o := x.e.newObj(st, cur)
	x.e.objElem[o] = et
	return &SliceV{Back: o, Off: IntLit(0), Len: Add(as.Len, IntLit(n)), Elem: et}
}

func isExecLevel(v Val) bool {
	_, ok := v.(*ArrV)
	return ok
}

// ---------------------------------------------------------------------------
// Byte buffers filled by copy() at constant offsets (key builders of the oracle module).

type bufWrite struct {
	Off   int64
	Src   T
	ToEnd bool // the destination slice ran to the end of the buffer
}

type bufInfo struct {
	N      T
	Writes []bufWrite
	Broken bool
	Cur    string // the buffer's contents after the last copy: any other write invalidates the piece structure
}

// segLitLen: the length of a byte string when it is known from its segment structure.
func segLitLen(t T) (int64, bool) {
	if t.Segs == nil {
		return 0, false
	}
	var n int64
	for _, s := range t.Segs {
		switch s.Kind {
		case "const":
			n += int64(len(s.Lit))
		case "u64":
			n += 8
		case "fill32":
			n += 32
		default:
			return 0, false
		}
	}
	return n, true
}

// bufSegments: the contents of a buffer written left to right at constant offsets, as a concatenation of pieces.
// Piece i covers [o_i, o_{i+1}) and holds the first K bytes of src_i padded with zeros (fixw), provided no earlier
// write reaches into it or src_i covers it entirely. The last piece must be covered by its source: that condition
// is emitted as an obligation ("buffer-layout") when it is not syntactically evident.
func (x *Exec) bufSegments(st *State, sl *SliceV, cur T) (T, bool) {
	bi := st.Bufs[sl.Back]
	if bi == nil || bi.Broken || len(bi.Writes) == 0 || sl.Len.S != bi.N.S || cur.S != bi.Cur {
		return T{}, false
	}
	ws := bi.Writes
	if ws[0].Off != 0 {
		return T{}, false
	}
	for i := range ws {
		if !ws[i].ToEnd || (i > 0 && ws[i].Off <= ws[i-1].Off) {
			return T{}, false
		}
	}
	var segs []Seg
	var parts []T
	for i, w := range ws {
		ll, known := segLitLen(w.Src)
		last := i == len(ws)-1
		if !last {
			k := ws[i+1].Off - w.Off
			covers := known && ll >= k
			if !covers {
				// no earlier write may reach into this piece
				for j := 0; j < i; j++ {
					lj, kj := segLitLen(ws[j].Src)
					if !kj || lj > w.Off-ws[j].Off {
						// an earlier source of unknown length is harmless only if every piece in between is covered;
						// keep it simple: give up
						if !(kj) && j < i {
							// the piece of j itself was fixed-width (fixw); its overflow is overwritten only by covering pieces
							allCovered := true
							for m := j + 1; m <= i; m++ {
								lm, km := segLitLen(ws[m].Src)
								var width int64
								if m < len(ws)-1 {
									width = ws[m+1].Off - ws[m].Off
								}
								if !(km && m < len(ws)-1 && lm >= width) {
									allCovered = false
								}
							}
							if allCovered {
								continue
							}
						}
						return T{}, false
					}
				}
			}
			var piece T
			if known && ll == k {
				piece = w.Src
				segs = append(segs, w.Src.Segs...)
			} else {
				x.e.declareFun("fixw", "(String Int) String")
				x.e.addAxiom("(assert (forall ((s String) (n Int)) (! (= (fixw s n) (str.substr (str.++ s (zeros n)) 0 n)) :pattern ((fixw s n)))))")
				piece = app(SString, "fixw", w.Src, IntLit(k))
				segs = append(segs, Seg{Kind: "str", S: piece.S})
			}
			parts = append(parts, piece)
			continue
		}
		// last piece: the source must reach the end of the buffer, and nothing before it may be left over beyond it
		cond := Ge(StrLen(w.Src), Sub(bi.N, IntLit(w.Off)))
		x.emit(st, "buffer-layout", x.oblName("buffer-layout"), "", cond)
		st.assume(cond, "buffer layout: the last copied value reaches the end of the key buffer")
		piece := app(SString, "str.substr", w.Src, IntLit(0), Sub(bi.N, IntLit(w.Off)))
		if w.Src.Segs != nil {
			segs = append(segs, w.Src.Segs...)
			piece = w.Src
		} else {
			piece = w.Src
			segs = append(segs, Seg{Kind: "str", S: w.Src.S})
		}
		// with len(src) >= N - off and N = off + len(src) by construction the piece is src itself; require equality
		eq := Eq(StrLen(w.Src), Sub(bi.N, IntLit(w.Off)))
		x.emit(st, "buffer-layout", x.oblName("buffer-layout-exact"), "", eq)
		st.assume(eq, "buffer layout: the last copied value ends exactly at the end of the key buffer")
		parts = append(parts, piece)
	}
	res := app(SString, "str.++", parts...)
	if len(parts) == 1 {
		res = parts[0]
	}
	res.Segs = segs
	if !strings.Contains(res.S, "(fixw ") {
		// all pieces have known widths: the piece form is proved equal to the exact contents (prefix ++ copied bytes ++
		// rest, per copy); with a cut / padded piece the equality is beyond the solvers and the rule is trusted
		x.emit(st, "buffer-layout", x.oblName("buffer-layout-eq"), "", Eq(T{S: res.S, So: SString}, T{S: cur.S, So: SString}))
	}
	x.e.note("byte buffers filled by copy() at increasing constant offsets are read as the concatenation of their pieces (fixed-width pieces are the source cut or zero-padded to the width)")
	return res, true
}

// copyDestination: the made slice (or a reslice of it) is the destination of a copy().
func copyDestination(v ssa.Value) bool {
	refs := v.Referrers()
	if refs == nil {
		return false
	}
	for _, r := range *refs {
		switch rr := r.(type) {
		case *ssa.Call:
			if b, ok := rr.Common().Value.(*ssa.Builtin); ok && b.Name() == "copy" && rr.Common().Args[0] == v {
				return true
			}
		case *ssa.Slice:
			if rr.X == v && copyDestination(rr) {
				return true
			}
		}
	}
	return false
}

// assumeLoadedRange: a value of a machine integer type read out of a data structure lies in the type's range (the
// type invariant of the field; fresh symbolic values get it when they are created, values selected out of SMT
// datatypes get it here).
func (x *Exec) assumeLoadedRange(st *State, v Val, t types.Type) {
	tv, ok := v.(T)
	if !ok || tv.So != SInt {
		return
	}
	if _, lit := isLit(tv); lit {
		return
	}
	if !strings.HasPrefix(tv.S, "(") {
		return // a constant symbol: constrained at creation
	}
	if r := intRange(tv, t); r.S != "true" {
		st.assume(r, "machine range of a loaded value")
	}
}
