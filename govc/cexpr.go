package main

// Evaluation of contract expressions in a symbolic state; contract application at call sites; loop invariants.

import (
	"crypto/sha256"
	"strconv"
	"sync"
	"fmt"
	"go/types"
	"math/big"
	"strings"

	"golang.org/x/tools/go/ssa"
)

// cv: a contract-level value: executor value plus (optional) Go type.
type cv struct {
	V Val
	T types.Type
}

// GhostEntry: result of Family[args]: an optional store entry.
type GhostEntry struct {
	Opt T
	Fam *Family
}

type CEnv struct {
	header    int // block index of the loop header whose invariant is being evaluated (-1: none)
	loopEntry *State
	spec   *FuncSpec
	x      *Exec
	st     *State
	old    *State // entry state (for old()); nil inside requires
	names  map[string]cv
	bound  map[string]T
	frames []*Frame // frames for local-name resolution (top last)
	inOld  bool
}

func (c *CEnv) fail(f string, a ...interface{}) {
	panic(execError{"contract expression: " + fmt.Sprintf(f, a...)})
}

func (c *CEnv) curState() *State {
	if c.inOld && c.old != nil {
		return c.old
	}
	return c.st
}

// term evaluates to an SMT term.
func (c *CEnv) term(e *Expr) T {
	v := c.eval(e)
	return c.toTerm(v)
}

func (c *CEnv) toTerm(v cv) T {
	switch x := v.V.(type) {
	case T:
		return x
	case *ErrV:
		return x.IsNil // only meaningful in comparisons with nil (handled in eval)
	case *GhostEntry:
		return x.Opt
	case NilV:
		c.fail("nil used as a term")
	}
	if v.T == nil {
		c.fail("cannot convert %T to a term without a type", v.V)
	}
	return c.x.e.reify(c.curState(), v.V, v.T)
}

func (c *CEnv) eval(e *Expr) cv {
	switch e.Op {
	case "lit":
		if strings.Contains(e.Val, ".") {
			// a decimal literal denotes the float64 nearest to it, as in the Go source (0.05 is 3602879701896397/2^56)
			f, err := strconv.ParseFloat(e.Val, 64)
			if err != nil {
				c.fail("bad real literal %s", e.Val)
			}
			r := new(big.Rat).SetFloat64(f)
			return cv{V: T{S: fmt.Sprintf("(/ %s.0 %s.0)", r.Num().String(), r.Denom().String()), So: SReal}}
		}
		n, _ := new(big.Int).SetString(e.Val, 10)
		return cv{V: BigLit(n)}
	case "str":
		return cv{V: StrLit(e.Val)}
	case "bool":
		return cv{V: BoolLit(e.Val == "true")}
	case "id":
		return c.ident(e.Val)
	case "sel":
		return c.sel(c.eval(e.Args[0]), e.Val)
	case "idx":
		return c.index(e)
	case "call":
		return c.callFn(e)
	case "un":
		a := c.term(e.Args[0])
		if e.Val == "!" {
			return cv{V: Not(a)}
		}
		return cv{V: app(SInt, "-", a)}
	case "ite":
		return cv{V: Ite(c.term(e.Args[0]), c.term(e.Args[1]), c.term(e.Args[2]))}
	case "quant":
		saved := map[string]T{}
		var decl []string
		for i, v := range e.Vars {
			if old, ok := c.bound[v]; ok {
				saved[v] = old
			}
			so := e.Srts[i]
			if so == "int" {
				so = "Int"
			}
			if so == "string" {
				so = "String"
			}
			nm := "q_" + v
			c.bound[v] = T{S: nm, So: so}
			decl = append(decl, fmt.Sprintf("(%s %s)", nm, so))
		}
		body := c.term(e.Args[0])
		if len(e.Args) > 1 {
			var ps []string
			for _, tr := range e.Args[1:] {
				ps = append(ps, c.term(tr).S)
			}
			body = T{S: fmt.Sprintf("(! %s :pattern (%s))", body.S, strings.Join(ps, " ")), So: SBool}
		}
		for _, v := range e.Vars {
			delete(c.bound, v)
			if old, ok := saved[v]; ok {
				c.bound[v] = old
			}
		}
		return cv{V: T{S: fmt.Sprintf("(%s (%s) %s)", e.Val, strings.Join(decl, " "), body.S), So: SBool}}
	case "bin":
		return c.bin(e)
	}
	c.fail("unknown expression node %s", e.Op)
	return cv{}
}

func (c *CEnv) bin(e *Expr) cv {
	op := e.Val
	switch op {
	case "==>":
		return cv{V: Implies(c.term(e.Args[0]), c.term(e.Args[1]))}
	case "<==>":
		return cv{V: Eq(c.term(e.Args[0]), c.term(e.Args[1]))}
	case "&&":
		return cv{V: And(c.term(e.Args[0]), c.term(e.Args[1]))}
	case "||":
		return cv{V: Or(c.term(e.Args[0]), c.term(e.Args[1]))}
	}
	a := c.eval(e.Args[0])
	b := c.eval(e.Args[1])
	if op == "==" || op == "!=" {
		// nil comparisons
		_, an := a.V.(NilV)
		_, bn := b.V.(NilV)
		var r T
		switch {
		case an && bn:
			r = TTrue
		case bn:
			r = c.nilOf(a)
		case an:
			r = c.nilOf(b)
		default:
			ta, tb := c.toTerm(a), c.toTerm(b)
			if ta.So != tb.So {
				c.fail("comparison of different sorts %s and %s (%s vs %s)", ta.So, tb.So, ta.S, tb.S)
			}
			r = Eq(ta, tb)
		}
		if op == "!=" {
			r = Not(r)
		}
		return cv{V: r}
	}
	ta, tb := c.toTerm(a), c.toTerm(b)
	switch op {
	case "+":
		if ta.So == SString {
			return cv{V: Concat(ta, tb)}
		}
		return cv{V: Add(ta, tb)}
	case "++":
		return cv{V: Concat(ta, tb)}
	case "-":
		return cv{V: Sub(ta, tb)}
	case "*":
		return cv{V: Mul(ta, tb)}
	case "/":
		return cv{V: TQuo(ta, tb)}
	case "%":
		return cv{V: TRem(ta, tb)}
	case "<":
		return cv{V: Lt(ta, tb)}
	case "<=":
		return cv{V: Le(ta, tb)}
	case ">":
		return cv{V: Gt(ta, tb)}
	case ">=":
		return cv{V: Ge(ta, tb)}
	}
	c.fail("unknown operator %s", op)
	return cv{}
}

func (c *CEnv) nilOf(v cv) T {
	switch x := v.V.(type) {
	case *GhostEntry:
		return Eq(x.Opt, T{S: "none", So: "OptS"})
	}
	return c.x.nilness(c.curState(), v.V)
}

func (c *CEnv) ident(name string) cv {
	if t, ok := c.bound[name]; ok {
		return cv{V: t}
	}
	if name == "nil" {
		return cv{V: NilV{}}
	}
	if name == "none" {
		return cv{V: T{S: "none", So: "OptS"}}
	}
	if v, ok := c.names[name]; ok && v.V != nil {
		// pointer parameters: dereference lazily in sel; heap state depends on old/current
		return v
	}
	if c.spec != nil {
		for _, l := range c.spec.Lets {
			if l.Name == name {
				return c.eval(l.Expr)
			}
		}
	}
	if c.x.root != nil && c.x.root != c.spec {
		for _, l := range c.x.root.Lets {
			if l.Name == name {
				return c.eval(l.Expr)
			}
		}
	}
	if m, ok := c.x.specs.macros[name]; ok {
		return c.eval(m)
	}
	if strings.HasPrefix(name, "$") {
		// $callee: the value returned by the call of that function in the innermost frame that has one
		frames := c.frames
		if len(frames) == 0 && c.st != nil {
			frames = c.st.Frames // postconditions: the root frame still holds the call results
		}
		for i := len(frames) - 1; i >= 0; i-- {
			for v, val := range frames[i].env {
				if call, ok := v.(*ssa.Call); ok {
					if f := call.Common().StaticCallee(); f != nil && f.Name() == name[1:] {
						return cv{V: val, T: call.Type()}
					}
					if call.Common().IsInvoke() && call.Common().Method.Name() == name[1:] {
						return cv{V: val, T: call.Type()}
					}
				}
			}
		}
		panic(noCallResult{name})
	}
	// locals by name in frames (innermost first)
	for i := len(c.frames) - 1; i >= 0; i-- {
		if v, ok := c.localByName(c.frames[i], name); ok {
			return v
		}
	}
	// ghost variables
	if t, ok := c.curState().Worlds[0][name]; ok {
		return cv{V: t}
	}
	if c.curState() != c.st {
		if t, ok := c.st.Worlds[0][name]; ok {
			_ = t
		}
	}
	if t, ok := constSpec[name]; ok {
		return cv{V: t}
	}
	if c.x.rootFn != nil {
		pk := c.x.rootFn.Pkg
		for f := c.x.rootFn; pk == nil && f.Parent() != nil; f = f.Parent() {
			pk = f.Parent().Pkg
		}
		if pk != nil {
			if nc, ok := pk.Members[name].(*ssa.NamedConst); ok {
				return cv{V: c.x.constVal(c.curState(), nc.Value), T: nc.Type()}
			}
		}
	}
	if name == "bondedlist" {
		c.x.e.declareFun("uf_bondedlist", "() (Array Int String)")
		return cv{V: T{S: "uf_bondedlist", So: "(Array Int String)"}}
	}
	if name == "bondedn" {
		c.x.e.declareFun("uf_bondedn", "() Int")
		return cv{V: T{S: "uf_bondedn", So: SInt}}
	}
	if name == "totalPower" {
		c.x.e.declareFun("uf_totalpower", "() Int")
		return cv{V: T{S: "uf_totalpower", So: SInt}}
	}
	c.fail("unknown identifier %q", name)
	return cv{}
}

func (c *CEnv) localByName(fr *Frame, name string) (cv, bool) {
	// parameters and free variables
	for _, p := range fr.fn.Params {
		if p.Name() == name {
			if v, ok := fr.env[p]; ok {
				return cv{V: v, T: p.Type()}, true
			}
		}
	}
	for _, fv := range fr.fn.FreeVars {
		if fv.Name() == name {
			if v, ok := fr.env[fv]; ok {
				// free variables are pointers to the captured cell: auto-deref
				if p, ok := v.(*PtrV); ok {
					if pt, ok := fv.Type().Underlying().(*types.Pointer); ok {
						return cv{V: c.x.loadFrom(c.curState(), p, pt.Elem(), 0), T: pt.Elem()}, true
					}
				}
				return cv{V: v, T: fv.Type()}, true
			}
		}
	}
	// phis and allocs with a source-variable comment
	var found ssa.Value
	n := 0
	for v := range fr.env {
		switch in := v.(type) {
		case *ssa.Phi:
			if in.Comment == name {
				// prefer phis of active loops' headers; count candidates
				if found == nil || c.preferPhi(fr, in, found) {
					found = in
				}
				n++
			}
		case *ssa.Alloc:
			if in.Comment == name {
				found = in
				n++
			}
		}
	}
	if found != nil {
		val := fr.env[found]
		if al, ok := found.(*ssa.Alloc); ok {
			et := al.Type().(*types.Pointer).Elem()
			return cv{V: c.x.loadFrom(c.curState(), val, et, 0), T: et}, true
		}
		return cv{V: val, T: found.Type()}, true
	}
	// debug refs: unique value bound to a source name
	if vals, ok := debugNames(fr.fn)[name]; ok {
		var cand ssa.Value
		cnt := 0
		for _, dv := range vals {
			if _, bound := fr.env[dv]; bound {
				cand = dv
				cnt++
			}
		}
		if cnt >= 1 {
			// several SSA values for one name: take the one defined last (highest block/instr order) that is bound
			cand = lastDefined(vals, fr)
			return cv{V: fr.env[cand], T: cand.Type()}, true
		}
	}
	if strings.HasPrefix(name, "#") {
		// "#i": the hidden range index phi of loop variable; look for rangeindex phi with comment "rangeindex"
	}
	return cv{}, false
}

func (c *CEnv) preferPhi(fr *Frame, a *ssa.Phi, cur ssa.Value) bool {
	// prefer the phi belonging to the innermost active loop header
	ph, ok := cur.(*ssa.Phi)
	if !ok {
		return true
	}
	if c.header >= 0 && fr == c.frames[len(c.frames)-1] {
		if (a.Block().Index == c.header) != (ph.Block().Index == c.header) {
			return a.Block().Index == c.header
		}
	}
	_, aActive := fr.loops[a.Block().Index]
	_, cActive := fr.loops[ph.Block().Index]
	if aActive != cActive {
		return aActive
	}
	return a.Block().Index > ph.Block().Index
}

var debugCache = map[*ssa.Function]map[string][]ssa.Value{}
var debugMu sync.Mutex

func debugNames(fn *ssa.Function) map[string][]ssa.Value {
	debugMu.Lock()
	defer debugMu.Unlock()
	if m, ok := debugCache[fn]; ok {
		return m
	}
	m := map[string][]ssa.Value{}
	for _, b := range fn.Blocks {
		for _, in := range b.Instrs {
			if d, ok := in.(*ssa.DebugRef); ok && !d.IsAddr {
				if id, ok := d.Expr.(interface{ String() string }); ok {
					_ = id
				}
				if obj := d.Object(); obj != nil {
					dup := false
					for _, v := range m[obj.Name()] {
						if v == d.X {
							dup = true
						}
					}
					if !dup {
						m[obj.Name()] = append(m[obj.Name()], d.X)
					}
				}
			}
		}
	}
	debugCache[fn] = m
	return m
}

func lastDefined(vals []ssa.Value, fr *Frame) ssa.Value {
	var best ssa.Value
	bestKey := -1
	for _, v := range vals {
		if _, ok := fr.env[v]; !ok {
			continue
		}
		key := 0
		if in, ok := v.(ssa.Instruction); ok && in.Block() != nil {
			key = in.Block().Index*10000 + instrIndex(in)
		}
		if key > bestKey {
			bestKey = key
			best = v
		}
	}
	return best
}

func instrIndex(in ssa.Instruction) int {
	for i, x := range in.Block().Instrs {
		if x == in {
			return i
		}
	}
	return 0
}

func (c *CEnv) sel(v cv, field string) cv {
	st := c.curState()
	switch x := v.V.(type) {
	case *GhostEntry:
		switch field {
		case "present":
			return cv{V: T{S: fmt.Sprintf("((_ is some) %s)", x.Opt.S), So: SBool}}
		case "raw":
			return cv{V: T{S: fmt.Sprintf("(someval %s)", x.Opt.S), So: SString}}
		case "v":
			raw := T{S: fmt.Sprintf("(someval %s)", x.Opt.S), So: SString}
			return c.x.decodeValue(st, x.Fam, raw)
		case "dec":
			// what the getters decode: the value, or the decoding of empty bytes when absent
			raw := app(SString, "getraw", x.Opt)
			return c.x.decodeValue(st, x.Fam, raw)
		case "get":
			return cv{V: app(SString, "getraw", x.Opt)}
		case "n":
			// numeric reading used by the u64 getters: 0 when absent or empty
			raw := app(SString, "getraw", x.Opt)
			return cv{V: Ite(Gt(StrLen(raw), IntLit(0)), app(SInt, "u64dec", raw), IntLit(0))}
		}
		c.fail("ghost entry has fields present, raw, v; not %s", field)
	case *PtrV:
		pt, ok := v.T.Underlying().(*types.Pointer)
		if !ok {
			c.fail("pointer value without pointer type")
		}
		if _, live := st.Heap[x.Obj]; !live {
			if _, liveNow := c.st.Heap[x.Obj]; liveNow && st != c.st {
				// object allocated after the entry state: old() does not apply to it
				st = c.st
			} else {
				// nil pointer in a specification context: an arbitrary value (the clause must guard it)
				return c.sel(cv{V: c.x.e.freshVal(st, "nilderef", pt.Elem()), T: pt.Elem()}, field)
			}
		}
		inner := c.x.e.load(st, x)
		if ov, ok := inner.(*OpaqueV); ok && ov.Tag == "any" {
			return c.sel(cv{V: ov.Data["dyn"].(T)}, field)
		}
		return c.sel(cv{V: inner, T: pt.Elem()}, field)
	case *StructV:
		u := x.Typ.Underlying().(*types.Struct)
		for i := 0; i < u.NumFields(); i++ {
			if u.Field(i).Name() == field {
				return cv{V: x.F[i], T: u.Field(i).Type()}
			}
		}
		// embedded
		for i := 0; i < u.NumFields(); i++ {
			if u.Field(i).Embedded() {
				if r, ok := c.trySel(cv{V: x.F[i], T: u.Field(i).Type()}, field); ok {
					return r
				}
			}
		}
		c.fail("no field %s in %s", field, typeString(x.Typ))
	case *SliceV:
		if field == "len" {
			return cv{V: x.Len}
		}
	case *TupleV:
		var i int
		fmt.Sscanf(field, "%d", &i)
		tt, _ := v.T.(*types.Tuple)
		var et types.Type
		if tt != nil {
			et = tt.At(i).Type()
		}
		return cv{V: x.Vs[i], T: et}
	case *CtxV:
		switch field {
		case "height":
			return cv{V: x.Height}
		case "time":
			return cv{V: x.Time}
		}
	case *IfaceV:
		// select through a known dynamic type
		if !x.Sym && x.Typ != nil && !strings.HasPrefix(field, "as_") && !strings.HasPrefix(field, "is_") {
			return c.sel(cv{V: x.V, T: x.Typ}, field)
		}
		return c.sel(cv{V: c.x.e.ifaceDyn(st, x)}, field)
	case T:
		// datatype term
		if fs, ok := c.x.e.dtFields[x.So]; ok {
			for _, f := range fs {
				if f.Name == field {
					ft := T{S: fmt.Sprintf("(%s_%s %s)", x.So, f.Name, x.S), So: f.Sort}
					return cv{V: ft, T: f.Typ}
				}
			}
			c.fail("no field %s in sort %s", field, x.So)
		}
		if strings.HasPrefix(x.So, "Slc_") {
			switch field {
			case "len":
				return cv{V: T{S: fmt.Sprintf("(len_%s %s)", x.So, x.S), So: SInt}}
			}
		}
		if x.So == "Key" {
			// k.is_Pool, k.Pool_0 ... components of a store key
			if strings.HasPrefix(field, "is_") {
				if fam, ok := familyByName[field[3:]]; ok {
					return cv{V: T{S: fmt.Sprintf("((_ is K_%s) %s)", fam.Name, x.S), So: SBool}}
				}
			}
			if i := strings.LastIndex(field, "_"); i > 0 {
				if fam, ok := familyByName[field[:i]]; ok {
					var n int
					fmt.Sscanf(field[i+1:], "%d", &n)
					if n < len(fam.Segs) {
						return cv{V: T{S: fmt.Sprintf("(K_%s_%d %s)", fam.Name, n, x.S), So: segSort(fam.Segs[n])}}
					}
				}
			}
			c.fail("bad key component %s", field)
		}
		if x.So == "OptS" {
			switch field {
			case "present":
				return cv{V: T{S: fmt.Sprintf("((_ is some) %s)", x.S), So: SBool}}
			case "raw":
				return cv{V: T{S: fmt.Sprintf("(someval %s)", x.S), So: SString}}
			}
			if strings.HasPrefix(field, "as_") {
				if fam, ok := familyByName[field[3:]]; ok {
					return c.x.decodeValue(st, fam, T{S: fmt.Sprintf("(someval %s)", x.S), So: SString})
				}
			}
			c.fail("optional store value has .present, .raw, .as_<Family>")
		}
		if x.So == "Dyn" {
			// field "as_<Type>" selects the payload of a constructor: x.as_BatchTx
			if strings.HasPrefix(field, "as_") || strings.HasPrefix(field, "is_") {
				tn := field[3:]
				for _, dc := range c.x.e.dynCons {
					if shortTypeNameNoPkg(derefType(dc.Typ)) == tn {
						if strings.HasPrefix(field, "is_") {
							return cv{V: T{S: fmt.Sprintf("((_ is %s) %s)", dc.Name, x.S), So: SBool}}
						}
						return cv{V: T{S: fmt.Sprintf("(%s_v %s)", dc.Name, x.S), So: dc.Sort}, T: derefType(dc.Typ)}
					}
				}
				// not registered yet: a message type of that name, stored by pointer in interfaces
				if mt := c.x.e.tryMsgType(tn); mt != nil {
					dc := c.x.e.dynConFor(types.NewPointer(mt))
					if strings.HasPrefix(field, "is_") {
						return cv{V: T{S: fmt.Sprintf("((_ is %s) %s)", dc.Name, x.S), So: SBool}}
					}
					return cv{V: T{S: fmt.Sprintf("(%s_v %s)", dc.Name, x.S), So: dc.Sort}, T: mt}
				}
				c.fail("no dynamic type %s", tn)
			}
		}
	}
	c.fail("cannot select .%s on %T", field, v.V)
	return cv{}
}

// iteByPC: ite simplified by a literal of the current path condition.
func (c *CEnv) iteByPC(cond, a, b T) T {
	if pcHas(c.st, cond) {
		return a
	}
	if pcHas(c.st, Not(cond)) {
		return b
	}
	return Ite(cond, a, b)
}

func shortTypeNameNoPkg(t types.Type) string {
	if n, ok := t.(*types.Named); ok {
		return n.Obj().Name()
	}
	return typeString(t)
}

func (c *CEnv) trySel(v cv, field string) (r cv, ok bool) {
	defer func() {
		if e := recover(); e != nil {
			ok = false
		}
	}()
	return c.sel(v, field), true
}

func (c *CEnv) index(e *Expr) cv {
	// Family[args] ?
	if e.Args[0].Op == "id" {
		if fam, ok := familyByName[e.Args[0].Val]; ok {
			var args []T
			for _, a := range e.Args[1:] {
				args = append(args, c.term(a))
			}
			key := fam.keyTerm(args, func(f string, a ...interface{}) { c.fail(f, a...) })
			store := c.curState().Worlds[0][fam.Store]
			return cv{V: &GhostEntry{Opt: T{S: fmt.Sprintf("(select %s %s)", store.S, key.S), So: "OptS"}, Fam: fam}}
		}
	}
	base := c.eval(e.Args[0])
	cur := base
	for _, a := range e.Args[1:] {
		cur = c.index1(cur, c.term(a))
	}
	return cur
}

func (c *CEnv) index1(base cv, idx T) cv {
	st := c.curState()
	switch b := base.V.(type) {
	case *SliceV:
		if b.Back < 0 {
			// total semantics in specifications: an arbitrary element (indices are guarded by the clause)
			return cv{V: c.x.e.fresh("nilelem", c.x.e.sortOf(b.Elem)), T: b.Elem}
		}
		if _, live := st.Heap[b.Back]; !live {
			st = c.st // backing allocated after the entry state
		}
		i := Add(b.Off, idx)
		if av, isArr := st.Heap[b.Back].(*ArrV); isArr {
			if n, lit := isLit(i); !lit || n < 0 || int(n) >= len(av.Elems) {
				arr := c.x.e.backingArray(st, b)
				return cv{V: T{S: fmt.Sprintf("(select %s %s)", arr.S, i.S), So: c.x.e.sortOf(b.Elem)}, T: b.Elem}
			}
		}
		el := c.x.e.getPath(st, st.Heap[b.Back], []PathEl{{Field: -1, Idx: &i}})
		if t, ok := el.(T); ok {
			if _, isArr := st.Heap[b.Back].(T); isArr {
				return cv{V: t, T: b.Elem}
			}
		}
		return cv{V: el, T: b.Elem}
	case T:
		if strings.HasPrefix(b.So, "(Array ") {
			// "(Array K V)"
			vs := arrayValueSort(b.So)
			return cv{V: T{S: fmt.Sprintf("(select %s %s)", b.S, idx.S), So: vs}}
		}
		if strings.HasPrefix(b.So, "Slc_") {
			es := c.x.e.elemSortOfSlice(b.So)
			var et types.Type
			if base.T != nil {
				if sl, ok := base.T.Underlying().(*types.Slice); ok {
					et = sl.Elem()
				}
			}
			return cv{V: T{S: fmt.Sprintf("(select (arr_%s %s) %s)", b.So, b.S, idx.S), So: es}, T: et}
		}
		if b.So == SString {
			return cv{V: app(SInt, "str.to_code", app(SString, "str.at", b, idx))}
		}
	case *MapV:
		// m[k] in a specification: the stored value (the element type's zero value is not modelled for absent keys:
		// clauses guard with the key's presence where it matters)
		if _, live := st.Heap[b.Obj]; !live {
			st = c.st
		}
		cur := st.Heap[b.Obj].(T)
		var et types.Type
		if base.T != nil {
			if mt, ok := base.T.Underlying().(*types.Map); ok {
				et = mt.Elem()
			}
		}
		vs := ""
		if et != nil {
			vs = c.x.e.sortOf(et)
		}
		return cv{V: T{S: fmt.Sprintf("(ite (select (has_%s %s) %s) (select (val_%s %s) %s) %s)", cur.So, cur.S, idx.S, cur.So, cur.S, idx.S, c.x.e.reify(st, c.x.tryZero(st, et), et).S), So: vs}, T: et}
	case *PtrV:
		pt := base.T.Underlying().(*types.Pointer)
		return c.index1(cv{V: c.x.e.load(st, b), T: pt.Elem()}, idx)
	case *ArrV:
		i, ok := isLit(idx)
		if !ok {
			c.fail("symbolic index into fixed array")
		}
		return cv{V: b.Elems[i], T: b.Elem}
	}
	c.fail("cannot index %T", base.V)
	return cv{}
}

func arrayValueSort(so string) string {
	// parse "(Array K V)" -> V, with nesting
	in := so[len("(Array ") : len(so)-1]
	depth := 0
	for i := 0; i < len(in); i++ {
		switch in[i] {
		case '(':
			depth++
		case ')':
			depth--
		case ' ':
			if depth == 0 {
				return in[i+1:]
			}
		}
	}
	return ""
}

// spec-level uninterpreted functions: name -> (arg sorts, result sort)
type ufSig struct {
	Args []string
	Res  string
}

var specUFs = map[string]ufSig{
	"bech32acc":  {[]string{"String"}, "String"}, // AccAddress bytes -> bech32 string
	"bech32val":  {[]string{"String"}, "String"},
	"accFromBech32": {[]string{"String"}, "String"},
	"valFromBech32": {[]string{"String"}, "String"},
	"bech32ok":   {[]string{"String"}, "Bool"},
	"bech32valok": {[]string{"String"}, "Bool"},
	"hexaddr":    {[]string{"String"}, "String"}, // common.HexToAddress
	"addrhex":    {[]string{"String"}, "String"}, // Address.Hex()
	"ishexaddr":  {[]string{"String"}, "Bool"},
	"keccak":     {[]string{"String"}, "String"},
	"sha256":     {[]string{"String"}, "String"},
	"hex2bytes":  {[]string{"String"}, "String"},
	"power":      {[]string{"String"}, "Int"}, // staking LastValidatorPower by val address bytes
	"bonded":     {[]string{"String"}, "Bool"},
	"valexists":  {[]string{"String"}, "Bool"},
	"holderValue": {[]string{"String"}, "Int"},
	"parseint":   {[]string{"String"}, "Int"},
	"parseintok": {[]string{"String"}, "Bool"},
	"accseq":     {[]string{"String"}, "Int"},
	"ecrecoverok": {[]string{"String", "String", "String"}, "Bool"},
	"price":      {[]string{"String"}, "Int"},
	"hasprice":   {[]string{"String"}, "Bool"},
	"itkey":      {[]string{"Int", "Int"}, "Key"},
	"eventhash":  {[]string{"Dyn"}, "String"},
	"chainok":    {[]string{"String"}, "Bool"},
	"recoverok":  {[]string{"String", "String"}, "Bool"},
	"recoveraddr": {[]string{"String", "String"}, "String"},
	"bytes2addr": {[]string{"String"}, "String"},
	"holderRate": {[]string{"Slc_String", "Int"}, "Int"},
	"tiDenom":    {[]string{"Slc_S_types_TokenInfo", "String", "String"}, "S_types_TokenInfo"},
	"hasDenom":   {[]string{"Slc_S_types_TokenInfo", "String", "String"}, "Bool"},
	"tiExt":      {[]string{"Slc_S_types_TokenInfo", "String", "String"}, "S_types_TokenInfo"},
	"hasExt":     {[]string{"Slc_S_types_TokenInfo", "String", "String"}, "Bool"},
	"tiId":       {[]string{"Slc_S_types_TokenInfo", "Int"}, "S_types_TokenInfo"},
	"hasId":      {[]string{"Slc_S_types_TokenInfo", "Int"}, "Bool"},
	"storeindex": {[]string{"Dyn", "String"}, "String"},
}

var constSpec = map[string]T{
	"moduleAddr": StrLit("module:mhub2"),
	"e18":        {S: "1000000000000000000", So: SInt},
	"MaxUint32": IntLit(4294967295),
	"two64":     BigLit(two64),
	"two256":    BigLit(new(big.Int).Lsh(big.NewInt(1), 256)),
}

func (c *CEnv) callFn(e *Expr) cv {
	name := e.Val
	switch name {
	case "old":
		if c.old == nil {
			c.fail("old() not available here")
		}
		saved := c.inOld
		c.inOld = true
		r := c.eval(e.Args[0])
		// force evaluation to a term while in old mode when possible
		switch r.V.(type) {
		case T, *GhostEntry, *ErrV, NilV:
		default:
			if r.T != nil {
				r = cv{V: c.x.e.reify(c.old, r.V, r.T), T: r.T}
			}
		}
		c.inOld = saved
		return r
	case "pre":
		// value of the expression when the current loop was entered (before the havoc)
		if c.loopEntry == nil {
			c.fail("pre() is only available in loop invariants")
		}
		savedSt, savedOld := c.st, c.inOld
		c.st = c.loopEntry
		c.inOld = false
		savedFrames := c.frames
		c.frames = c.loopEntry.Frames
		r := c.eval(e.Args[0])
		switch r.V.(type) {
		case T, *GhostEntry, *ErrV, NilV:
		default:
			if r.T != nil {
				r = cv{V: c.x.e.reify(c.loopEntry, r.V, r.T), T: r.T}
			}
		}
		c.st, c.inOld, c.frames = savedSt, savedOld, savedFrames
		return r
	case "len":
		a := c.eval(e.Args[0])
		switch x := a.V.(type) {
		case *SliceV:
			return cv{V: x.Len}
		case NilV:
			return cv{V: IntLit(0)}
		case *ArrV:
			return cv{V: IntLit(int64(len(x.Elems)))}
		case *PtrV:
			return c.callFn(&Expr{Op: "call", Val: "len", Args: []*Expr{{Op: "sel", Val: "len", Args: e.Args}}})
		case T:
			if x.So == SString {
				return cv{V: StrLen(x)}
			}
			if strings.HasPrefix(x.So, "Slc_") {
				return cv{V: T{S: fmt.Sprintf("(len_%s %s)", x.So, x.S), So: SInt}}
			}
		}
		c.fail("len of %T", a.V)
	case "unchanged":
		var cs []T
		for _, a := range e.Args {
			if a.Op != "id" {
				c.fail("unchanged() takes ghost names")
			}
			cur, ok := c.st.Worlds[0][a.Val]
			if !ok {
				c.fail("unknown ghost %s", a.Val)
			}
			cs = append(cs, Eq(cur, c.old.Worlds[0][a.Val]))
		}
		return cv{V: And(cs...)}
	case "code":
		return cv{V: app(SInt, "str.to_code", app(SString, "str.at", c.term(e.Args[0]), c.term(e.Args[1])))}
	case "chr":
		return cv{V: app(SString, "str.from_code", c.term(e.Args[0]))}
	case "pad32":
		// the [32]byte value obtained by copying s into a zeroed array (s truncated to 32 bytes)
		s := c.term(e.Args[0])
		var parts []T
		var lit []byte
		isConst := s.Segs != nil && len(s.Segs) == 1 && s.Segs[0].Kind == "const"
		for i := 0; i < 32; i++ {
			if isConst {
				if i < len(s.Segs[0].Lit) {
					lit = append(lit, s.Segs[0].Lit[i])
				} else {
					lit = append(lit, 0)
				}
				continue
			}
			parts = append(parts, app(SString, "str.from_code", Ite(Lt(IntLit(int64(i)), StrLen(s)), app(SInt, "str.to_code", app(SString, "str.at", s, IntLit(int64(i)))), IntLit(0))))
		}
		if isConst {
			return cv{V: T{S: smtStrLit(lit), So: SString}}
		}
		return cv{V: Concat(parts...)}
	case "i64":
		// uint64 -> int64 reinterpretation
		t := c.term(e.Args[0])
		w := app(SInt, "mod", t, BigLit(two64))
		return cv{V: Ite(Ge(w, BigLit(two63)), Sub(w, BigLit(two64)), w)}
	case "unwrap":
		// the value held by an interface value of known dynamic type
		v := c.eval(e.Args[0])
		if iv, ok := v.V.(*IfaceV); ok && !iv.Sym && iv.Typ != nil {
			return cv{V: iv.V, T: iv.Typ}
		}
		c.fail("unwrap of %T", v.V)
	case "strlt":
		return cv{V: app(SBool, "str.<", c.term(e.Args[0]), c.term(e.Args[1]))}
	case "unm_Dyn":
		_, unm := c.x.e.marshalDyn()
		return cv{V: app("Dyn", unm, c.term(e.Args[0]))}
	case "unm_LatestBlockHeight":
		t := c.x.e.msgTypeByName("LatestBlockHeight")
		_, unm := c.x.e.marshalFn(t)
		return cv{V: app(c.x.e.sortOf(t), unm, c.term(e.Args[0])), T: t}
	case "getraw":
		return cv{V: app(SString, "getraw", c.term(e.Args[0]))}
	case "unm_Attestation", "unm_GenericClaim", "unm_Prices", "unm_Holders", "unm_SendToExternal":
		t := c.x.e.msgTypeByName(strings.TrimPrefix(name, "unm_"))
		_, unm := c.x.e.marshalFn(t)
		return cv{V: app(c.x.e.sortOf(t), unm, c.term(e.Args[0])), T: t}
	case "pow10", "abs_", "max_", "min_", "tquo", "trem", "u64be", "u64dec", "fill32":
		var args []T
		for _, a := range e.Args {
			args = append(args, c.term(a))
		}
		so := SInt
		if name == "u64be" || name == "fill32" {
			so = SString
		}
		return cv{V: app(so, name, args...)}
	case "ediv":
		return cv{V: EDiv(c.term(e.Args[0]), c.term(e.Args[1]))}
	case "emod":
		return cv{V: EMod(c.term(e.Args[0]), c.term(e.Args[1]))}
	case "max", "min", "abs":
		var args []T
		for _, a := range e.Args {
			args = append(args, c.term(a))
		}
		return cv{V: app(SInt, name+"_", args...)}
	case "some":
		return cv{V: app("OptS", "some", c.term(e.Args[0]))}
	case "arrof":
		// arrof(v): the element array of a slice-sorted term
		v := c.term(e.Args[0])
		if !strings.HasPrefix(v.So, "Slc_") {
			c.fail("arrof needs a slice term, got sort %s", v.So)
		}
		return cv{V: T{S: fmt.Sprintf("(arr_%s %s)", v.So, v.S), So: "(Array Int " + c.x.e.elemSortOfSlice(v.So) + ")"}}
	case "mkslice":
		// mkslice(a, n): the slice with element array a and length n (frame axioms of recursive spec functions over
		// slices are stated over the terms an element write or an append produces)
		a := c.term(e.Args[0])
		n := c.term(e.Args[1])
		es := strings.TrimSuffix(strings.TrimPrefix(a.So, "(Array Int "), ")")
		so := "Slc_" + es
		if es == "Int" || es == "String" || es == "Bool" {
			so = "Slc_" + es
		}
		return cv{V: T{S: fmt.Sprintf("(mk_%s %s %s)", so, a.S, n.S), So: so}}
	case "store":
		// store(M, k..., v): functional update of an array ghost
		m := c.term(e.Args[0])
		return cv{V: c.storeN(m, e.Args[1:])}
	case "key":
		// key(Family, args...) -> Key term
		fam, ok := familyByName[e.Args[0].Val]
		if !ok {
			c.fail("unknown family %s", e.Args[0].Val)
		}
		var args []T
		for _, a := range e.Args[1:] {
			args = append(args, c.term(a))
		}
		return cv{V: fam.keyTerm(args, func(f string, a ...interface{}) { c.fail(f, a...) })}
	case "enc":
		// enc(Family, value) -> OptS some(encoded)
		fam, ok := familyByName[e.Args[0].Val]
		if !ok {
			c.fail("unknown family %s", e.Args[0].Val)
		}
		v := c.eval(e.Args[1])
		return cv{V: app("OptS", "some", c.x.encodeValue(c.curState(), fam, v))}
	case "hexenc":
		c.x.e.declareFun("uf_hexenc", "(String) String")
		return cv{V: app(SString, "uf_hexenc", c.term(e.Args[0]))}
	case "fixw":
		c.x.e.declareFun("fixw", "(String Int) String")
		c.x.e.addAxiom("(assert (forall ((s String) (n Int)) (! (= (fixw s n) (str.substr (str.++ s (zeros n)) 0 n)) :pattern ((fixw s n)))))")
		return cv{V: app(SString, "fixw", c.term(e.Args[0]), c.term(e.Args[1]))}
	case "sha256lit":
		// sha256lit("text"): the 32 bytes of sha256 of a literal
		if e.Args[0].Op != "str" {
			c.fail("sha256lit needs a string literal")
		}
		h := sha256.Sum256([]byte(e.Args[0].Val))
		return cv{V: T{S: smtStrLit(h[:]), So: SString, Segs: []Seg{{Kind: "const", Lit: h[:], S: smtStrLit(h[:])}}}}
	case "maphas":
		m := c.eval(e.Args[0])
		k := c.term(e.Args[1])
		var mt T
		switch v := m.V.(type) {
		case *MapV:
			st := c.curState()
			if _, live := st.Heap[v.Obj]; !live {
				st = c.st
			}
			mt = st.Heap[v.Obj].(T)
		case T:
			mt = v
		default:
			c.fail("maphas needs a map, got %T", m.V)
		}
		return cv{V: T{S: fmt.Sprintf("(select (has_%s %s) %s)", mt.So, mt.S, k.S), So: SBool}}
	case "visited":
		// visited(m, k): key k has already been produced by the (latest) range statement over map m
		m := c.eval(e.Args[0])
		k := c.term(e.Args[1])
		mv, ok := m.V.(*MapV)
		if !ok {
			c.fail("visited needs a map variable, got %T", m.V)
		}
		vo, has := c.x.e.mapVisited[mv.Obj]
		if !has {
			c.fail("visited: no range statement over this map has started")
		}
		st := c.curState()
		if _, live := st.Heap[vo]; !live {
			st = c.st
		}
		vis := st.Heap[vo].(T)
		return cv{V: T{S: fmt.Sprintf("(select %s %s)", vis.S, k.S), So: SBool}}
	case "mapget":
		// mapget(m, k): Go's m[k] on a map-sorted term (zero value of an integer element for absent keys)
		m := c.eval(e.Args[0])
		k := c.term(e.Args[1])
		if mv, ok := m.V.(*MapV); ok {
			return c.index1(m, k)
			_ = mv
		}
		mt, ok := m.V.(T)
		if !ok || !strings.HasPrefix(mt.So, "Map_") {
			c.fail("mapget needs a map, got %T", m.V)
		}
		return cv{V: T{S: fmt.Sprintf("(ite (select (has_%s %s) %s) (select (val_%s %s) %s) 0)", mt.So, mt.S, k.S, mt.So, mt.S, k.S), So: SInt}}
	case "marshal":
		// marshal(TypeName, value): the protobuf encoding of a message value (mar_T, injective by the round-trip axiom)
		t := c.x.e.msgTypeByName(e.Args[0].Val)
		mar, _ := c.x.e.marshalFn(t)
		v := c.eval(e.Args[1])
		var term T
		if tv, ok := v.V.(T); ok {
			term = tv
		} else {
			term = c.x.e.reify(c.curState(), v.V, t)
		}
		return cv{V: app(SString, mar, term)}
	case "substr":
		return cv{V: app(SString, "str.substr", c.term(e.Args[0]), c.term(e.Args[1]), c.term(e.Args[2]))}
	case "prefixof":
		return cv{V: app(SBool, "str.prefixof", c.term(e.Args[0]), c.term(e.Args[1]))}
	case "sum":
		// sum(f, lo, hi): uninterpreted prefix sum with unfolding axioms added per use (see sumTerm)
		c.fail("sum() is not supported; use explicit ghost accumulators")
	}
	switch name {
	case "itkeyOf":
		// itkeyOf(id, i): the i-th key of iterator number id
		c.x.e.declareFun("itkey", "(Int Int) Key")
		return cv{V: T{S: fmt.Sprintf("(itkey %s %s)", c.term(e.Args[0]).S, c.term(e.Args[1]).S), So: "Key"}}
	case "itpos", "itn", "itkey", "itval", "itsnap", "itid":
		iv := c.eval(e.Args[0])
		it, ok := iv.V.(*OpaqueV)
		if !ok || it.Tag != "iter" {
			c.fail("%s needs an iterator, got %T", name, iv.V)
		}
		switch name {
		case "itpos":
			p, _ := c.x.iterPos(c.curState(), it)
			return cv{V: p}
		case "itn":
			return cv{V: it.Data["n"].(T)}
		case "itsnap":
			return cv{V: it.Data["snap"].(T)}
		case "itid":
			return cv{V: it.Data["id"].(T)}
		case "itkey":
			return cv{V: T{S: fmt.Sprintf("(itkey %s %s)", it.Data["id"].(T).S, c.term(e.Args[1]).S), So: "Key"}}
		case "itval":
			k := fmt.Sprintf("(itkey %s %s)", it.Data["id"].(T).S, c.term(e.Args[1]).S)
			raw := T{S: fmt.Sprintf("(someval (select %s %s))", it.Data["snap"].(T).S, k), So: SString}
			fam := familyByName[it.Data["fam"].(T).S]
			return c.x.decodeValue(c.curState(), fam, raw)
		}
	case "mk":
		// mk(TypeName, field values in declaration order): a message value
		if e.Args[0].Op != "id" {
			c.fail("mk: first argument must be a type name")
		}
		t := c.x.e.msgTypeByName(e.Args[0].Val)
		so := c.x.e.sortOf(t)
		fs := c.x.e.dtFields[so]
		if len(fs) != len(e.Args)-1 {
			c.fail("mk(%s) takes %d fields, got %d", e.Args[0].Val, len(fs), len(e.Args)-1)
		}
		var args []T
		for i, a := range e.Args[1:] {
			at := c.term(a)
			if at.So != fs[i].Sort {
				c.fail("mk(%s): field %s has sort %s, want %s", e.Args[0].Val, fs[i].Name, at.So, fs[i].Sort)
			}
			args = append(args, at)
		}
		return cv{V: app(so, "mk_"+so, args...), T: t}
	case "list":
		// list(a, b, ...): a slice value with exactly these elements
		var els []T
		for _, a := range e.Args {
			els = append(els, c.term(a))
		}
		if len(els) == 0 {
			c.fail("list() needs at least one element")
		}
		es := els[0].So
		so := c.x.e.sliceSort(es)
		cur := c.x.e.baseArray(es)
		for i, el := range els {
			cur = T{S: fmt.Sprintf("(store %s %d %s)", cur.S, i, el.S), So: cur.So}
		}
		return cv{V: T{S: fmt.Sprintf("(mk_%s %s %d)", so, cur.S, len(els)), So: so}}
	case "strip0x":
		s := c.term(e.Args[0])
		return cv{V: Ite(And(Gt(StrLen(s), IntLit(2)), Eq(app(SString, "str.substr", s, IntLit(0), IntLit(2)), StrLit("0x"))), app(SString, "str.substr", s, IntLit(2), Sub(StrLen(s), IntLit(2))), s)}
	case "asdyn":
		v := c.eval(e.Args[0])
		if v.T == nil {
			c.fail("asdyn needs a typed value")
		}
		if iv, ok := v.V.(*IfaceV); ok {
			return cv{V: c.x.e.ifaceDyn(c.curState(), iv)}
		}
		dc := c.x.e.dynConFor(v.T)
		return cv{V: T{S: fmt.Sprintf("(%s %s)", dc.Name, c.x.e.reify(c.curState(), v.V, v.T).S), So: "Dyn"}}
	case "dynfield":
		// dynfield(d, "Field"): the field of whichever concrete message type d holds (ite chain over constructors)
		d := c.eval(e.Args[0])
		var dt T
		switch dv := d.V.(type) {
		case T:
			dt = dv
		case *IfaceV:
			dt = c.x.e.ifaceDyn(c.curState(), dv)
		case *PtrV:
			dt = c.x.anyDyn(c.curState(), dv)
		case *OpaqueV:
			dt = c.x.anyDyn(c.curState(), dv)
		default:
			c.fail("dynfield of %T", d.V)
		}
		fld := e.Args[1].Val
		var res *T
		// make sure all implementers are registered as constructors
		cons := append([]dynCon(nil), c.x.e.dynCons...)
		for i := len(cons) - 1; i >= 0; i-- {
			dc := cons[i]
			fs := c.x.e.dtFields[dc.Sort]
			for _, f := range fs {
				if f.Name == fld {
					sel := T{S: fmt.Sprintf("(%s_%s (%s_v %s))", dc.Sort, f.Name, dc.Name, dt.S), So: f.Sort}
					if res == nil {
						r := sel
						res = &r
					} else {
						r := Ite(T{S: fmt.Sprintf("((_ is %s) %s)", dc.Name, dt.S), So: SBool}, sel, *res)
						res = &r
					}
				}
			}
		}
		if res == nil {
			c.fail("no message type with field %s", fld)
		}
		return cv{V: *res}
	case "valOf":
		s := c.term(e.Args[0])
		c.x.e.declareFun("uf_bech32valok", "(String) Bool")
		c.x.e.declareFun("uf_valFromBech32", "(String) String")
		return cv{V: c.iteByPC(app(SBool, "uf_bech32valok", s), app(SString, "uf_valFromBech32", s), T{S: `""`, So: SString})}
	case "accOf":
		s := c.term(e.Args[0])
		c.x.e.declareFun("uf_bech32ok", "(String) Bool")
		c.x.e.declareFun("uf_accFromBech32", "(String) String")
		return cv{V: c.iteByPC(app(SBool, "uf_bech32ok", s), app(SString, "uf_accFromBech32", s), T{S: `""`, So: SString})}
	}
	if pm, ok := c.x.specs.pmacros[name]; ok && len(pm.Params) == len(e.Args) {
		return c.applyParams(pm, e.Args)
	}
	// parametric lets of the function's own contract
	for _, sp := range []*FuncSpec{c.spec, c.x.root} {
		if sp == nil {
			continue
		}
		for _, l := range sp.Lets {
			if l.Name == name && len(l.Params) == len(e.Args) && len(l.Params) > 0 {
				return c.applyParams(l, e.Args)
			}
		}
	}
	if name == "params" {
		// params(): the module's Params value (the ghost constant behind GetParamSet / GetParams)
		want := "/x/mhub2/types"
		if c.x.rootFn != nil && strings.Contains(c.x.rootFn.String(), "/x/oracle") {
			want = "/x/oracle/types"
		}
		var t types.Type
		for _, p := range c.x.e.prog.AllPackages() {
			if p.Pkg != nil && strings.HasSuffix(p.Pkg.Path(), want) {
				if m := p.Type("Params"); m != nil {
					t = m.Type()
				}
			}
		}
		if t == nil {
			c.fail("no Params type in %s", want)
		}
		so := c.x.e.sortOf(t)
		nm := "params_" + mangle(so)
		c.x.e.declareFun(nm, "() "+so)
		return cv{V: T{S: nm, So: so}, T: t}
	}
	if name == "param" {
		// param("Key"): the integer module parameter stored under that key (the ghost function behind Subspace.Get)
		c.x.e.declareFun("param_Int", "(String) Int")
		return cv{V: app(SInt, "param_Int", c.term(e.Args[0]))}
	}
	sig, ok := specUFs[name]
	if !ok {
		sig, ok = c.x.specs.specFns[name]
		if ok {
			c.x.useSpecAxioms()
		}
	}
	if ok {
		if len(sig.Args) != len(e.Args) {
			c.fail("%s expects %d arguments", name, len(sig.Args))
		}
		var args []T
		for i, a := range e.Args {
			t := c.term(a)
			if t.So != sig.Args[i] {
				c.fail("%s argument %d has sort %s, want %s", name, i, t.So, sig.Args[i])
			}
			args = append(args, t)
		}
		c.x.e.declareFun("uf_"+name, "("+strings.Join(sig.Args, " ")+") "+sig.Res)
		return cv{V: app(sig.Res, "uf_"+name, args...)}
	}
	c.fail("unknown spec function %s", name)
	return cv{}
}

func (c *CEnv) storeN(m T, rest []*Expr) T {
	if len(rest) == 2 {
		k := c.term(rest[0])
		v := c.term(rest[1])
		return T{S: fmt.Sprintf("(store %s %s %s)", m.S, k.S, v.S), So: m.So}
	}
	k := c.term(rest[0])
	inner := T{S: fmt.Sprintf("(select %s %s)", m.S, k.S), So: arrayValueSort(m.So)}
	upd := c.storeN(inner, rest[1:])
	return T{S: fmt.Sprintf("(store %s %s %s)", m.S, k.S, upd.S), So: m.So}
}

func (c *CEnv) applyParams(l *Clause, args []*Expr) cv {
	vals := make([]T, len(args))
	for i := range args {
		vals[i] = c.term(args[i])
	}
	saved := map[string]*T{}
	for i, p := range l.Params {
		if old, ok := c.bound[p]; ok {
			o := old
			saved[p] = &o
		} else {
			saved[p] = nil
		}
		c.bound[p] = vals[i]
	}
	r := c.eval(l.Expr)
	for p, o := range saved {
		if o == nil {
			delete(c.bound, p)
		} else {
			c.bound[p] = *o
		}
	}
	return r
}

// useSpecAxioms adds the user-declared axioms (over user-declared spec functions) to the engine's axiom set.
func (x *Exec) useSpecAxioms() {
	if x.axiomsLoaded {
		return
	}
	x.axiomsLoaded = true
	for _, sig := range x.specs.specFns {
		for _, so := range append(append([]string{}, sig.Args...), sig.Res) {
			if strings.HasPrefix(so, "Map_") {
				// Map_<K>_<V> over basic sorts
				if parts := strings.SplitN(so[4:], "_", 2); len(parts) == 2 {
					x.e.mapSort(parts[0], parts[1])
					continue
				}
			}
			if strings.HasPrefix(so, "S_types_") {
				if t := x.e.tryMsgType(so[len("S_types_"):]); t != nil {
					x.e.sortOf(t)
					continue
				}
			}
			if strings.HasPrefix(so, "Slc_S_types_") {
				// a slice of messages: declare the message sort (with its fields) through the Go type
				if t := x.e.tryMsgType(so[len("Slc_S_types_"):]); t != nil {
					x.e.sortOf(types.NewSlice(t))
					continue
				}
			}
			if strings.HasPrefix(so, "Slc_") {
				x.e.sliceSort(so[4:])
			}
		}
	}
	for name, sig := range x.specs.specFns {
		x.e.declareFun("uf_"+name, "("+strings.Join(sig.Args, " ")+") "+sig.Res)
	}
	for _, ax := range x.specs.axioms {
		c := &CEnv{x: x, st: &State{Worlds: map[int]map[string]T{0: {}}, Heap: map[int]Val{}}, names: map[string]cv{}, bound: map[string]T{}, header: -1}
		t := x.evalClause(c, ax)
		x.e.addAxiom("(assert " + t.S + ")")
		// reported as an assumption only by the runs whose queries actually include it
		x.e.axiomMu.Lock()
		x.e.axiomNote["(assert "+t.S+")"] = "spec axiom " + ax.Name + ": " + ax.Src
		x.e.axiomMu.Unlock()
	}
}

// ---------------------------------------------------------------------------
// Building environments.

func (x *Exec) envFor(st *State, old *State, fr *Frame, result Val) *CEnv {
	c := &CEnv{x: x, st: st, old: old, names: map[string]cv{}, bound: map[string]T{}, spec: fr.spec, header: -1}
	c.frames = st.Frames
	fn := fr.fn
	for i, p := range fn.Params {
		c.names[p.Name()] = cv{V: fr.args[i], T: p.Type()}
	}
	for _, fv := range fn.FreeVars {
		if v, ok := fr.env[fv]; ok {
			if p, ok := v.(*PtrV); ok {
				if pt, ok := fv.Type().Underlying().(*types.Pointer); ok {
					if _, live := st.Heap[p.Obj]; live {
						c.names[fv.Name()] = cv{V: x.loadFrom(st, p, pt.Elem(), 0), T: pt.Elem()}
						continue
					}
				}
			}
			c.names[fv.Name()] = cv{V: v, T: fv.Type()}
		}
	}
	res := fn.Signature.Results()
	if result != nil || res.Len() > 0 {
		switch res.Len() {
		case 1:
			c.names["result"] = cv{V: result, T: res.At(0).Type()}
			if res.At(0).Name() != "" {
				c.names[res.At(0).Name()] = c.names["result"]
			}
			if isErrorType(res.At(0).Type()) {
				c.names["err"] = c.names["result"]
			}
		default:
			if tv, ok := result.(*TupleV); ok {
				c.names["result"] = cv{V: tv, T: res}
				if res.Len() == 2 && isErrorType(res.At(1).Type()) {
					c.names["result"] = cv{V: tv.Vs[0], T: res.At(0).Type()}
				}
				for i := 0; i < res.Len(); i++ {
					r := cv{V: tv.Vs[i], T: res.At(i).Type()}
					c.names[fmt.Sprintf("result%d", i)] = r
					if res.At(i).Name() != "" {
						c.names[res.At(i).Name()] = r
					}
					if isErrorType(res.At(i).Type()) {
						c.names["err"] = r
					}
				}
			}
		}
	}
	return c
}

func (x *Exec) evalClause(c *CEnv, cl *Clause) (t T) {
	defer func() {
		if r := recover(); r != nil {
			if _, ok := r.(noCallResult); ok {
				// the clause speaks about the result of a call that did not happen on this path: it holds vacuously
				t = TTrue
				return
			}
			if ee, ok := r.(execError); ok {
				panic(execError{fmt.Sprintf("%s [%s: %s]", ee.msg, cl.Line, cl.Src)})
			}
			panic(r)
		}
	}()
	t = c.term(cl.Expr)
	if t.So != SBool {
		panic(execError{"clause is not boolean"})
	}
	return t
}

// noCallResult: a clause refers to `$callee` on a path where that callee was not called.
type noCallResult struct{ name string }

func (x *Exec) applyLets(c *CEnv, spec *FuncSpec) {
	c.spec = spec // lets are macros: evaluated where they are used (so old(h) evaluates h in the old state)
}

func (x *Exec) checkInvariant(st *State, fr *Frame, lr *loopRun, kind string) {
	c := x.envFor(st, x.entry, fr, nil)
	c.frames = st.Frames
	c.loopEntry = lr.entry
	c.header = lr.header
	if c.loopEntry == nil {
		c.loopEntry = st
	}
	for _, inv := range lr.spec.Invariants {
		if !inv.appliesTo(x.root.Prop) {
			continue
		}
		g := x.evalClause(c, inv)
		x.emit(st, kind, x.oblName(fmt.Sprintf("%s/loop%s/%s/%s", shortFuncName(fr.fn), lr.spec.Key, inv.Name, kind)), inv.Line, g)
	}
}

func (x *Exec) assumeInvariant(st *State, fr *Frame, lr *loopRun) {
	c := x.envFor(st, x.entry, fr, nil)
	c.frames = st.Frames
	c.loopEntry = lr.entry
	c.header = lr.header
	for _, inv := range lr.spec.Invariants {
		if !inv.appliesTo(x.root.Prop) {
			continue
		}
		st.assume(x.evalClause(c, inv), "loop invariant "+inv.Name)
	}
}

// applyContract: call by contract.
func (x *Exec) applyContract(st *State, fr *Frame, ci *callInfo, fn *ssa.Function, spec *FuncSpec, args []Val, k func(*State, *Frame, Val)) {
	if spec.Assumed {
		x.e.note("ASSUMED (unverified) contract of the repository function " + spec.Name + ": it wraps an external service")
	}
	callee := &Frame{fn: fn, env: map[ssa.Value]Val{}, args: args, spec: spec}
	for i, p := range fn.Params {
		callee.env[p] = args[i]
	}
	pre := st.clone()
	// requires
	cpre := x.envFor(st, nil, callee, nil)
	cpre.frames = nil
	for _, r := range spec.Requires {
		if r.Props != nil {
			continue // property-tagged preconditions scope only the function's own obligations for that property
		}
		g := x.evalClause(cpre, r)
		x.emit(st, "requires", x.oblName(fmt.Sprintf("call:%s/%s@%s", spec.Name, r.Name, x.posStr(ci.pos))), r.Line, g)
		st.assume(g, "callee precondition")
	}
	// havoc: ghost state in modifies (or all), heap objects reachable from pointer args (unless pure)
	if !spec.Pure {
		mods := spec.Modifies
		all := false
		if !spec.ModSet {
			// no explicit frame: use the inferred write set (effect analysis over the call graph)
			mods = effects.of(fn).list()
			x.e.note("callees without a modifies clause are framed by the inferred write set (call-graph effect analysis)")
		}
		for w := range st.Worlds {
			if w != x.worldOfArgs(args) && !all {
				continue
			}
		}
		wd := x.worldOfArgs(args)
		if all {
			for g, t := range st.Worlds[wd] {
				st.Worlds[wd][g] = x.e.fresh(g, t.So)
				if st.GWrit != nil {
					st.GWrit[g] = true
				}
			}
		} else {
			for _, g := range mods {
				if t, ok := st.Worlds[wd][g]; ok {
					st.Worlds[wd][g] = x.e.fresh(g, t.So)
					if st.GWrit != nil {
						st.GWrit[g] = true
					}
				}
			}
		}
		for i, a := range args {
			if p, ok := a.(*PtrV); ok && p.Nil.S != "true" {
				_ = i
				if _, isBig := st.Heap[p.Obj].(T); isBig {
					continue
				}
				st.Heap[p.Obj] = x.havocLike(st, st.Heap[p.Obj], p.Obj)
				if st.Written != nil {
					st.Written[p.Obj] = true
				}
			}
		}
	}
	// fresh result
	var result Val
	res := fn.Signature.Results()
	var defined Val
	var definedNil *T
	if spec.ResultIs != nil {
		// definitional result: the spec term itself (no fresh constant), so that callers and contracts share it
		cdef := x.envFor(st, pre, callee, nil)
		cdef.frames = nil
		x.applyLets(cdef, spec)
		dt := cdef.term(spec.ResultIs.Expr)
		rt := res.At(0).Type()
		if dt.So != x.e.sortOf(rt) {
			x.fail("result-is of %s has sort %s, want %s", spec.Name, dt.So, x.e.sortOf(rt))
		}
		defined = x.e.reflect(st, dt, rt)
		x.e.note("definitional result (assumed at call sites): " + spec.Name + " returns " + spec.ResultIs.Src)
		_ = definedNil
	}
	mk := func(t types.Type, hint string) Val {
		return x.havocValLike(st, x.tryZero(st, t), hint, t)
	}
	switch res.Len() {
	case 0:
	case 1:
		if defined != nil {
			result = defined
		} else {
			result = mk(res.At(0).Type(), "res_"+fn.Name())
		}
	default:
		tv := &TupleV{}
		for i := 0; i < res.Len(); i++ {
			tv.Vs = append(tv.Vs, mk(res.At(i).Type(), fmt.Sprintf("res%d_%s", i, fn.Name())))
		}
		if defined != nil {
			if ev, ok := tv.Vs[res.Len()-1].(*ErrV); ok {
				if pv, ok := defined.(*PtrV); ok {
					pv.Nil = Not(ev.IsNil)
				}
			}
			tv.Vs[0] = defined
		}
		result = tv
	}
	// contracts speak about world 0; when the callee runs in a cache context, swap worlds for evaluation
	wd := x.worldOfArgs(args)
	post := st
	if wd != 0 {
		post = st.clone()
		post.Worlds[0] = st.Worlds[wd]
		pre.Worlds[0] = pre.Worlds[wd]
	}
	cpost := x.envFor(post, pre, callee, result)
	cpost.frames = nil
	x.applyLets(cpost, spec)
	for _, en := range spec.Ensures {
		st.assume(x.evalClause(cpost, en), "callee postcondition "+spec.Name+"/"+en.Name)
	}
	if post != st {
		st.Heap = post.Heap
	}
	k(st, fr, result)
}

func (x *Exec) worldOfArgs(args []Val) int {
	for _, a := range args {
		if c, ok := a.(*CtxV); ok {
			return c.World
		}
	}
	return 0
}
