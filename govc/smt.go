package main

// SMT term layer: terms are strings with a sort; helpers build SMT-LIB 2 text.

import (
	"encoding/json"
	"bytes"
	"context"
	"fmt"
	"math/big"
	"os"
	"os/exec"
	"path/filepath"
	"regexp"
	"sort"
	"strings"
	"sync"
	"time"
)

// Seg is one segment of a byte string built by concatenation (used to classify store keys).
type Seg struct {
	Kind string // "const" (literal bytes), "str" (variable string/bytes), "u64" (8-byte big endian of Arg), "fill32" (32-byte big endian of Arg), "raw"
	S    string // SMT String term of this segment
	Arg  string // SMT Int term for u64/fill32
	Lit  []byte // for const
}

// T is an SMT term.
type T struct {
	S    string
	So   string
	Segs []Seg  // optional, only for String sort terms built as byte concatenations
	Nil  string // optional, only for byte-slice terms: SMT Bool term that is true iff the slice is nil (store.Get)
}

const (
	SInt    = "Int"
	SBool   = "Bool"
	SString = "String"
	SReal   = "Real"
)

func (t T) String() string { return t.S }

var (
	TTrue  = T{S: "true", So: SBool}
	TFalse = T{S: "false", So: SBool}
)

func IntLit(n int64) T {
	if n < 0 {
		return T{S: fmt.Sprintf("(- %d)", -n), So: SInt}
	}
	return T{S: fmt.Sprintf("%d", n), So: SInt}
}

func BigLit(n *big.Int) T {
	if n.Sign() < 0 {
		return T{S: "(- " + new(big.Int).Neg(n).String() + ")", So: SInt}
	}
	return T{S: n.String(), So: SInt}
}

func BoolLit(b bool) T {
	if b {
		return TTrue
	}
	return TFalse
}

func smtStrLit(b []byte) string {
	var sb strings.Builder
	sb.WriteByte('"')
	for _, c := range b {
		if c >= 0x20 && c < 0x7f && c != '"' && c != '\\' {
			sb.WriteByte(c)
		} else {
			fmt.Fprintf(&sb, "\\u{%x}", c)
		}
	}
	sb.WriteByte('"')
	return sb.String()
}

func StrLit(s string) T {
	return T{S: smtStrLit([]byte(s)), So: SString, Segs: []Seg{{Kind: "const", S: smtStrLit([]byte(s)), Lit: []byte(s)}}}
}

func app(so string, op string, args ...T) T {
	var sb strings.Builder
	sb.WriteByte('(')
	sb.WriteString(op)
	for _, a := range args {
		sb.WriteByte(' ')
		sb.WriteString(a.S)
	}
	sb.WriteByte(')')
	return T{S: sb.String(), So: so}
}

func isLit(t T) (int64, bool) {
	var n int64
	if _, err := fmt.Sscanf(t.S, "%d", &n); err == nil && fmt.Sprintf("%d", n) == t.S {
		return n, true
	}
	if strings.HasPrefix(t.S, "(- ") && strings.HasSuffix(t.S, ")") {
		in := t.S[3 : len(t.S)-1]
		if _, err := fmt.Sscanf(in, "%d", &n); err == nil && fmt.Sprintf("%d", n) == in {
			return -n, true
		}
	}
	return 0, false
}

func Not(a T) T {
	switch a.S {
	case "true":
		return TFalse
	case "false":
		return TTrue
	}
	if strings.HasPrefix(a.S, "(not ") {
		return T{S: a.S[5 : len(a.S)-1], So: SBool}
	}
	return app(SBool, "not", a)
}

func And(as ...T) T {
	var out []T
	for _, a := range as {
		if a.S == "true" {
			continue
		}
		if a.S == "false" {
			return TFalse
		}
		out = append(out, a)
	}
	if len(out) == 0 {
		return TTrue
	}
	if len(out) == 1 {
		return out[0]
	}
	return app(SBool, "and", out...)
}

func Or(as ...T) T {
	var out []T
	for _, a := range as {
		if a.S == "false" {
			continue
		}
		if a.S == "true" {
			return TTrue
		}
		out = append(out, a)
	}
	if len(out) == 0 {
		return TFalse
	}
	if len(out) == 1 {
		return out[0]
	}
	return app(SBool, "or", out...)
}

func Implies(a, b T) T {
	if a.S == "true" {
		return b
	}
	if a.S == "false" || b.S == "true" {
		return TTrue
	}
	return app(SBool, "=>", a, b)
}

func Eq(a, b T) T {
	if a.S == b.S {
		return TTrue
	}
	if la, ok := isLit(a); ok {
		if lb, ok2 := isLit(b); ok2 {
			return BoolLit(la == lb)
		}
	}
	return app(SBool, "=", a, b)
}

func Ite(c, a, b T) T {
	if c.S == "true" {
		return a
	}
	if c.S == "false" {
		return b
	}
	if a.S == b.S {
		return a
	}
	return app(a.So, "ite", c, a, b)
}

func Add(a, b T) T {
	if la, ok := isLit(a); ok {
		if lb, ok2 := isLit(b); ok2 && la+lb < 1<<60 && la+lb > -(1<<60) {
			return IntLit(la + lb)
		}
		if la == 0 {
			return b
		}
	}
	if lb, ok := isLit(b); ok && lb == 0 {
		return a
	}
	return app(SInt, "+", a, b)
}
func Sub(a, b T) T {
	if lb, ok := isLit(b); ok {
		if lb == 0 {
			return a
		}
		if la, ok2 := isLit(a); ok2 {
			return IntLit(la - lb)
		}
	}
	return app(SInt, "-", a, b)
}
func Mul(a, b T) T { return app(SInt, "*", a, b) }
func cmpLit(op string, a, b T) (T, bool) {
	la, ok1 := isLit(a)
	lb, ok2 := isLit(b)
	if !ok1 || !ok2 {
		return T{}, false
	}
	switch op {
	case "<":
		return BoolLit(la < lb), true
	case "<=":
		return BoolLit(la <= lb), true
	case ">":
		return BoolLit(la > lb), true
	}
	return BoolLit(la >= lb), true
}
func Lt(a, b T) T {
	if r, ok := cmpLit("<", a, b); ok {
		return r
	}
	return app(SBool, "<", a, b)
}
func Le(a, b T) T {
	if r, ok := cmpLit("<=", a, b); ok {
		return r
	}
	return app(SBool, "<=", a, b)
}
func Gt(a, b T) T {
	if r, ok := cmpLit(">", a, b); ok {
		return r
	}
	return app(SBool, ">", a, b)
}
func Ge(a, b T) T {
	if r, ok := cmpLit(">=", a, b); ok {
		return r
	}
	return app(SBool, ">=", a, b)
}

// EDiv / EMod: SMT-LIB div/mod are Euclidean for positive divisors (floor for b>0).
func EDiv(a, b T) T { return app(SInt, "div", a, b) }
func EMod(a, b T) T { return app(SInt, "mod", a, b) }

// TQuo: truncated division (Go's / on signed ints, big.Int.Quo).
func TQuo(a, b T) T { return app(SInt, "tquo", a, b) }
func TRem(a, b T) T { return app(SInt, "trem", a, b) }

var two64 = new(big.Int).Lsh(big.NewInt(1), 64)
var two63 = new(big.Int).Lsh(big.NewInt(1), 63)

func WrapU(a T, bits int) T {
	if l, ok := isLit(a); ok && l >= 0 {
		if bits >= 63 || l < 1<<uint(bits) {
			return a
		}
	}
	m := new(big.Int).Lsh(big.NewInt(1), uint(bits))
	return app(SInt, "mod", a, BigLit(m))
}

func Concat(parts ...T) T {
	var segs []Seg
	var ss []T
	for _, p := range parts {
		if p.S == `""` {
			continue
		}
		ss = append(ss, p)
		if p.Segs != nil {
			segs = append(segs, p.Segs...)
		} else {
			segs = append(segs, Seg{Kind: "raw", S: p.S})
		}
	}
	// merge adjacent consts
	var m []Seg
	for _, s := range segs {
		if s.Kind == "const" && len(m) > 0 && m[len(m)-1].Kind == "const" {
			l := append(append([]byte{}, m[len(m)-1].Lit...), s.Lit...)
			m[len(m)-1] = Seg{Kind: "const", Lit: l, S: smtStrLit(l)}
			continue
		}
		m = append(m, s)
	}
	if len(ss) == 0 {
		return T{S: `""`, So: SString, Segs: []Seg{}}
	}
	if len(ss) == 1 {
		r := ss[0]
		r.Segs = m
		return r
	}
	r := app(SString, "str.++", ss...)
	r.Segs = m
	return r
}

func StrLen(a T) T {
	if a.Segs != nil {
		all := true
		n := 0
		for _, s := range a.Segs {
			switch s.Kind {
			case "const":
				n += len(s.Lit)
			case "u64":
				n += 8
			case "fill32":
				n += 32
			default:
				all = false
			}
		}
		if all {
			return IntLit(int64(n))
		}
	}
	return app(SInt, "str.len", a)
}

// ---------------------------------------------------------------------------
// Prelude: fixed function definitions shared by all queries.

const prelude = `
(define-fun tquo ((a Int) (b Int)) Int (ite (>= a 0) (ite (> b 0) (div a b) (- (div a (- b)))) (ite (> b 0) (- (div (- a) b)) (div (- a) (- b)))))
(define-fun trem ((a Int) (b Int)) Int (- a (* b (tquo a b))))
(define-fun abs_ ((a Int)) Int (ite (>= a 0) a (- a)))
(define-fun max_ ((a Int) (b Int)) Int (ite (>= a b) a b))
(define-fun min_ ((a Int) (b Int)) Int (ite (<= a b) a b))
(define-fun pow10 ((n Int)) Int (ite (<= n 0) 1 (ite (= n 1) 10 (ite (= n 2) 100 (ite (= n 3) 1000 (ite (= n 4) 10000 (ite (= n 5) 100000 (ite (= n 6) 1000000 (ite (= n 7) 10000000 (ite (= n 8) 100000000 (ite (= n 9) 1000000000 (ite (= n 10) 10000000000 (ite (= n 11) 100000000000 (ite (= n 12) 1000000000000 (ite (= n 13) 10000000000000 (ite (= n 14) 100000000000000 (ite (= n 15) 1000000000000000 (ite (= n 16) 10000000000000000 (ite (= n 17) 100000000000000000 (ite (= n 18) 1000000000000000000 (ite (= n 19) 10000000000000000000 (ite (= n 20) 100000000000000000000 (ite (= n 21) 1000000000000000000000 (ite (= n 22) 10000000000000000000000 (ite (= n 23) 100000000000000000000000 (ite (= n 24) 1000000000000000000000000 (pow10big n)))))))))))))))))))))))))))
`

// declared before prelude text
const preludeDecls = `
(declare-fun pow10big (Int) Int)
(declare-fun u64be (Int) String)
(declare-fun u64dec (String) Int)
(declare-fun fill32 (Int) String)
(declare-fun zeros (Int) String)
(declare-fun getraw (OptS) String)
`

const preludeAxioms = `
(assert (forall ((n Int)) (! (> (pow10big n) 1000000000000000000000000) :pattern ((pow10big n)))))
(assert (forall ((n Int)) (! (and (= (str.len (u64be n)) 8) (=> (and (<= 0 n) (< n 18446744073709551616)) (= (u64dec (u64be n)) n))) :pattern ((u64be n)))))
(assert (forall ((s String)) (! (and (<= 0 (u64dec s)) (< (u64dec s) 18446744073709551616)) :pattern ((u64dec s)))))
(assert (forall ((n Int)) (! (= (str.len (fill32 n)) 32) :pattern ((fill32 n)))))
(assert (forall ((n Int)) (! (= (str.len (zeros n)) (ite (>= n 0) n 0)) :pattern ((zeros n)))))
(assert (forall ((o OptS)) (! (= (getraw o) (ite ((_ is some) o) (someval o) "")) :pattern ((getraw o)))))
`

// ---------------------------------------------------------------------------
// Solver race.

type SolveResult struct {
	Status string // "unsat", "sat", "unknown", "timeout", "error"
	Solver string
	Secs   float64
	Model  string
	Raw    string
	Agree  int // thorough tier: number of back ends that gave this answer
}

var solverSem = make(chan struct{}, 14)

type solverSpec struct {
	name string
	args func(file string, timeoutS int) []string
}

var solvers = []solverSpec{
	{"z3-new", func(f string, t int) []string { return []string{"z3-new", fmt.Sprintf("-T:%d", t), f} }},
	{"z3", func(f string, t int) []string { return []string{"/usr/bin/z3", fmt.Sprintf("-T:%d", t), f} }},
	{"cvc5", func(f string, t int) []string {
		return []string{"cvc5", "--produce-models", "--strings-exp", fmt.Sprintf("--tlimit=%d", t*1000), f}
	}},
}

var outDir = "/verif/out"

// repoRoot and outRoot can be redirected (GOVC_REPO, GOVC_OUT) by the seeded-change tooling, which runs the checks
// against scratch worktrees; the registered commands never set them.
// crossCheck (thorough tier): all back ends start at once and answers arriving within 8 s of the first are compared
var crossCheck bool

// solverHints: obligation name -> the back end that answered it in an earlier run (/verif/solver_hints.json, written
// by `govc check -write-hints`, read on every run; a missing or stale entry only costs time).
var solverHints = loadHints()

func loadHints() map[string]string {
	m := map[string]string{}
	if b, err := os.ReadFile("/verif/solver_hints.json"); err == nil {
		json.Unmarshal(b, &m)
	}
	return m
}

var repoRoot, outRoot = envOr("GOVC_REPO", "/repo"), envOr("GOVC_OUT", "/verif/out")

func envOr(k, d string) string {
	if v := os.Getenv(k); v != "" {
		return v
	}
	return d
}

// Solve races the installed solvers on the script (which must end with check-sat; get-model is appended).
func Solve(name string, script string, timeoutS int, wantModel bool) SolveResult {
	solverSem <- struct{}{}
	defer func() { <-solverSem }()
	dir := filepath.Join(outDir, "smt")
	os.MkdirAll(dir, 0o755)
	safe := regexp.MustCompile(`[^A-Za-z0-9_.-]+`).ReplaceAllString(name, "_")
	if len(safe) > 150 {
		safe = safe[:150]
	}
	file := filepath.Join(dir, safe+".smt2")
	full := script + "\n(check-sat)\n"
	if wantModel {
		full += "(get-model)\n"
	}
	if len(full) > 4<<20 {
		return SolveResult{Status: "error", Raw: "VC too large"}
	}
	os.WriteFile(file, []byte(full), 0o644)

	ctx, cancel := context.WithCancel(context.Background())
	defer cancel()
	type res struct {
		r SolveResult
	}
	ch := make(chan SolveResult, len(solvers))
	var wg sync.WaitGroup
	order := solvers
	if h := solverHints[name]; h != "" && !crossCheck {
		// start with the back end that decided this obligation last time (performance only: every answer is still
		// an answer of one of the three back ends, and the others follow after the usual delay)
		var first, rest []solverSpec
		for _, sp := range solvers {
			if sp.name == h {
				first = append(first, sp)
			} else {
				rest = append(rest, sp)
			}
		}
		order = append(first, rest...)
	}
	for si, sp := range order {
		sp := sp
		si := si
		wg.Add(1)
		go func() {
			defer wg.Done()
			if si > 0 && !crossCheck {
				// staged race: the other solvers start only if the first has not answered quickly
				select {
				case <-ctx.Done():
					ch <- SolveResult{Solver: sp.name, Status: "cancelled"}
					return
				case <-time.After(1500 * time.Millisecond):
				}
			}
			start := time.Now()
			args := sp.args(file, timeoutS)
			cmd := exec.CommandContext(ctx, args[0], args[1:]...)
			var out bytes.Buffer
			cmd.Stdout = &out
			cmd.Stderr = &out
			cmd.Run()
			secs := time.Since(start).Seconds()
			txt := out.String()
			first := ""
			rest := txt
			for _, ln := range strings.Split(txt, "\n") {
				t := strings.TrimSpace(ln)
				rest = rest[len(ln):]
				rest = strings.TrimPrefix(rest, "\n")
				if t == "sat" || t == "unsat" || t == "unknown" || t == "timeout" {
					first = t
					break
				}
				if t != "" && !strings.HasPrefix(t, "WARNING") {
					first = t
					break
				}
			}
			r := SolveResult{Solver: sp.name, Secs: secs, Raw: txt}
			switch first {
			case "unsat":
				r.Status = "unsat"
			case "sat":
				r.Status = "sat"
				r.Model = rest
			case "unknown":
				r.Status = "unknown"
			case "timeout":
				r.Status = "timeout"
			default:
				if ctx.Err() != nil {
					r.Status = "cancelled"
				} else if strings.Contains(txt, "timeout") || strings.Contains(txt, "interrupted") {
					r.Status = "timeout"
				} else {
					r.Status = "error"
				}
			}
			ch <- r
		}()
	}
	go func() { wg.Wait(); close(ch) }()
	var best SolveResult
	best.Status = "unknown"
	var errs []string
	var first *SolveResult
	var deadline <-chan time.Time
	for {
		var r SolveResult
		var ok bool
		if first != nil {
			select {
			case r, ok = <-ch:
			case <-deadline:
				cancel()
				return *first
			}
		} else {
			r, ok = <-ch
		}
		if !ok {
			break
		}
		if first != nil {
			// thorough tier: a second back end that answers within the grace period is recorded
			if r.Status == first.Status {
				first.Solver += "+" + r.Solver
				first.Agree++
			} else if r.Status == "sat" || r.Status == "unsat" {
				cancel()
				return SolveResult{Solver: first.Solver + "!" + r.Solver, Status: "error", Raw: "back ends disagree: " + first.Solver + " says " + first.Status + ", " + r.Solver + " says " + r.Status}
			}
			continue
		}
		if r.Status == "unsat" || r.Status == "sat" {
			if !crossCheck {
				cancel()
				return r
			}
			rc := r
			rc.Agree = 1
			first = &rc
			deadline = time.After(8 * time.Second)
			continue
		}
		if r.Status == "error" {
			errs = append(errs, r.Solver+": "+firstLines(r.Raw, 3))
		}
		if r.Status == "timeout" {
			best.Status = "timeout"
		}
	}
	if first != nil {
		cancel()
		return *first
	}
	if len(errs) == len(solvers) {
		best.Status = "error"
	}
	sort.Strings(errs)
	best.Raw = strings.Join(errs, "\n")
	return best
}

func firstLines(s string, n int) string {
	ls := strings.Split(s, "\n")
	if len(ls) > n {
		ls = ls[:n]
	}
	return strings.Join(ls, " | ")
}
