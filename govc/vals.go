package main

// Executor-level values, the symbolic state, and conversion between Go-typed values and SMT terms.

import (
	"sync"
	"math/big"
	"fmt"
	"go/types"
	"sort"
	"strings"

	"golang.org/x/tools/go/ssa"
)

type Val interface{}

// StructV: a struct value (immutable; updates copy).
type StructV struct {
	Typ  types.Type // the (possibly named) struct type
	F    []Val
	Orig *T // the SMT term this value was reflected from (nil once modified)
}

// PathEl: a step from an object into a sub-location.
type PathEl struct {
	Field int // >=0: struct field index
	Idx   *T  // non-nil: array/slice element index (absolute index into the backing)
}

// PtrV: pointer to a location inside a heap object.
type PtrV struct {
	Nil  T // Bool term: pointer is nil
	Obj  int
	Path []PathEl
	Elem types.Type
}

// SliceV: a slice over a backing heap object (ArrV or SMT array term).
type SliceV struct {
	Back int // -1 for nil slice
	Off  T
	Len  T
	Elem types.Type
}

// ArrV: an array with statically known length.
type ArrV struct {
	Elem  types.Type
	Elems []Val
}

// IfaceV: interface value. Typ != nil: known dynamic type with executor value V. Otherwise symbolic Dyn term (or nil if IsNil).
type IfaceV struct {
	Typ types.Type
	V   Val
	Dyn T
	Sym bool
}

type ClosureV struct {
	Fn       *ssa.Function
	Bindings []Val
}
type FuncV struct{ Fn *ssa.Function }
type BuiltinV struct{ Name string }
type TupleV struct{ Vs []Val }
type MapV struct{ Obj int }

// CtxV: an sdk.Context; World selects the ghost-state world (CacheContext creates new worlds).
type CtxV struct {
	World  int
	Height T
	Time   T
}

// OpaqueV: a value we do not model (codec, store keys, loggers...). Tag describes it.
type OpaqueV struct {
	Tag  string
	Data map[string]Val
}

// CommitV: the commit closure returned by CacheContext.
type CommitV struct{ From, To int }

// NilV: untyped nil constant.
type NilV struct{ Typ types.Type }

// ---------------------------------------------------------------------------

type frameInfo struct {
	fn *ssa.Function
}

// State: one symbolic execution path.
type State struct {
	Heap    map[int]Val
	Worlds  map[int]map[string]T // ghost state per world: name -> term
	PC      []T                  // path condition (assumptions)
	PCNote  []string
	Bufs    map[int]*bufInfo // byte buffers under construction (immutable entries, copied on fork)
	Written map[int]bool    // heap objects written (discovery)
	GWrit   map[string]bool // ghost names written (discovery)
	Depth   int
	Trace   []string
	Olds    []map[string]T // snapshot of ghost world 0 at function entry (contract old())
	Frames  []*Frame
}

func (s *State) top() *Frame { return s.Frames[len(s.Frames)-1] }

func (s *State) clone() *State {
	n := &State{Heap: make(map[int]Val, len(s.Heap)), Worlds: make(map[int]map[string]T, len(s.Worlds)), Depth: s.Depth}
	for k, v := range s.Heap {
		n.Heap[k] = v
	}
	for w, m := range s.Worlds {
		nm := make(map[string]T, len(m))
		for k, v := range m {
			nm[k] = v
		}
		n.Worlds[w] = nm
	}
	if s.Bufs != nil {
		n.Bufs = make(map[int]*bufInfo, len(s.Bufs))
		for k, b := range s.Bufs {
			n.Bufs[k] = b
		}
	}
	n.PC = append([]T(nil), s.PC...)
	n.PCNote = append([]string(nil), s.PCNote...)
	n.Trace = append([]string(nil), s.Trace...)
	n.Olds = s.Olds
	for _, f := range s.Frames {
		n.Frames = append(n.Frames, f.clone())
	}
	if s.Written != nil {
		n.Written = s.Written // shared on purpose (discovery collects over all paths)
		n.GWrit = s.GWrit
	}
	return n
}

func (s *State) assume(t T, note string) {
	if t.S == "true" {
		return
	}
	for _, h := range s.PC {
		if h.S == t.S {
			return
		}
	}
	s.PC = append(s.PC, t)
	s.PCNote = append(s.PCNote, note)
}

// ---------------------------------------------------------------------------
// Type classification.

func typeString(t types.Type) string {
	return types.TypeString(t, nil)
}

const (
	tySdkInt   = "github.com/cosmos/cosmos-sdk/types.Int"
	tySdkUint  = "github.com/cosmos/cosmos-sdk/types.Uint"
	tySdkDec   = "github.com/cosmos/cosmos-sdk/types.Dec"
	tyBigInt   = "math/big.Int"
	tyTime     = "time.Time"
	tyDuration = "time.Duration"
	tyCtx      = "github.com/cosmos/cosmos-sdk/types.Context"
	tyAddress  = "github.com/ethereum/go-ethereum/common.Address"
	tyHash     = "github.com/ethereum/go-ethereum/common.Hash"
	tyAny      = "github.com/cosmos/cosmos-sdk/codec/types.Any"
	tyValidator = "github.com/cosmos/cosmos-sdk/x/staking/types.Validator" // modelled by its operator address
)

func isByte(t types.Type) bool {
	b, ok := t.Underlying().(*types.Basic)
	return ok && (b.Kind() == types.Uint8)
}

// isBytesLike: []byte, [N]byte, string and named versions are all modelled as SMT String.
func isBytesLike(t types.Type) bool {
	switch u := t.Underlying().(type) {
	case *types.Basic:
		return u.Info()&types.IsString != 0
	case *types.Slice:
		return isByte(u.Elem())
	case *types.Array:
		return isByte(u.Elem())
	}
	return false
}

// ---------------------------------------------------------------------------
// Engine: global per-run context (declarations, datatypes).

type Engine struct {
	prog      *ssa.Program
	iterPosObjs map[int]bool // heap objects holding the position of a store iterator
	mapVisited  map[int]int  // map heap object -> heap object of the visited-key set of the latest range over it
	nFresh    int
	decls     []string          // declare-const / declare-fun lines in creation order
	declSet   map[string]bool   // names
	dtOrder   []string          // datatype declarations in dependency order
	dtSet     map[string]string // go type string -> sort name
	dtFields  map[string][]dtField
	dynCons   []dynCon // constructors of the Dyn datatype
	dynSet    map[string]int
	assumpt   map[string]bool // assumptions used (for evidence)
	nextObj   int
	nextWorld int
	axioms    []string
	axiomSet  map[string]bool
	implCache map[string][]types.Type
	objElem   map[int]types.Type
	nIter     int
	localArr  map[int]bool // byte arrays that are local variables (mutable through slices)
	axiomMu   sync.Mutex
	freshDepth int
	freshBusy  map[string]bool // unmodelled types being expanded (recursive library types end in an opaque value)
	axiomNote map[string]string // axiom text -> description (contract axioms)
	axiomUsed map[string]bool   // descriptions of the axioms included in some query
	elemAlias map[int]elemAliasT // objects reflected out of pointer-element arrays: writes go back to the array
	inProgress map[string]bool
}

type elemAliasT struct {
	Arr  int
	Idx  T
	Elem types.Type
}

type dtField struct {
	Name string
	Typ  types.Type
	Sort string
}

type dynCon struct {
	Name string // constructor name
	Typ  types.Type
	Sort string // payload sort
}

func NewEngine(prog *ssa.Program) *Engine {
	return &Engine{prog: prog, declSet: map[string]bool{}, dtSet: map[string]string{}, dtFields: map[string][]dtField{}, dynSet: map[string]int{}, assumpt: map[string]bool{}, axiomSet: map[string]bool{}, implCache: map[string][]types.Type{}, objElem: map[int]types.Type{}, elemAlias: map[int]elemAliasT{}, localArr: map[int]bool{}, inProgress: map[string]bool{}, axiomNote: map[string]string{}, axiomUsed: map[string]bool{}}
}

func (e *Engine) note(a string) { e.assumpt[a] = true }

func (e *Engine) fresh(hint string, so string) T {
	e.nFresh++
	hint = sanitize(hint)
	name := fmt.Sprintf("%s!%d", hint, e.nFresh)
	e.decls = append(e.decls, fmt.Sprintf("(declare-const %s %s)", name, so))
	return T{S: name, So: so}
}

func (e *Engine) declareFun(name string, sig string) {
	if e.declSet[name] {
		return
	}
	e.declSet[name] = true
	e.decls = append(e.decls, fmt.Sprintf("(declare-fun %s %s)", name, sig))
}

func (e *Engine) addAxiom(ax string) {
	if e.axiomSet[ax] {
		return
	}
	e.axiomSet[ax] = true
	e.axioms = append(e.axioms, ax)
}

func sanitize(s string) string {
	var sb strings.Builder
	for _, c := range s {
		if (c >= 'a' && c <= 'z') || (c >= 'A' && c <= 'Z') || (c >= '0' && c <= '9') || c == '_' {
			sb.WriteRune(c)
		} else {
			sb.WriteByte('_')
		}
	}
	if sb.Len() == 0 {
		return "v"
	}
	return sb.String()
}

func (e *Engine) newObj(st *State, v Val) int {
	e.nextObj++
	st.Heap[e.nextObj] = v
	return e.nextObj
}

// sortOf maps a Go type to an SMT sort (declaring datatypes on demand).
func (e *Engine) sortOf(t types.Type) string {
	ts := typeString(t)
	switch ts {
	case tySdkInt, tySdkUint, tySdkDec, tyTime, tyDuration:
		return SInt
	case tyAddress, tyHash, tyValidator:
		return SString
	}
	if p, ok := t.(*types.Pointer); ok {
		if typeString(p.Elem()) == tyBigInt {
			return SInt
		}
		if typeString(p.Elem()) == tyAny {
			return "Dyn"
		}
		return e.sortOf(p.Elem())
	}
	if ts == tyAny {
		return "Dyn"
	}
	if ts == tyBigInt {
		return SInt
	}
	if isBytesLike(t) {
		return SString
	}
	switch u := t.Underlying().(type) {
	case *types.Basic:
		switch {
		case u.Info()&types.IsBoolean != 0:
			return SBool
		case u.Info()&types.IsInteger != 0:
			return SInt
		case u.Info()&types.IsFloat != 0:
			return SReal
		case u.Info()&types.IsString != 0:
			return SString
		}
	case *types.Struct:
		return e.structSort(t, u)
	case *types.Slice:
		es := e.sortOf(u.Elem())
		return e.sliceSort(es)
	case *types.Array:
		es := e.sortOf(u.Elem())
		return e.sliceSort(es)
	case *types.Interface:
		return "Dyn"
	case *types.Map:
		ks := e.sortOf(u.Key())
		vs := e.sortOf(u.Elem())
		return e.mapSort(ks, vs)
	}
	panic(fmt.Sprintf("sortOf: unsupported type %s", ts))
}

func mangle(s string) string {
	r := strings.NewReplacer("(", "L", ")", "R", " ", "_")
	return r.Replace(s)
}

func (e *Engine) sliceSort(es string) string {
	name := "Slc_" + mangle(es)
	if _, ok := e.dtSet["slice:"+es]; !ok {
		e.dtSet["slice:"+es] = name
		e.dtOrder = append(e.dtOrder, fmt.Sprintf("(declare-datatypes ((%s 0)) (((mk_%s (arr_%s (Array Int %s)) (len_%s Int)))))", name, name, name, es, name))
	}
	return name
}

func (e *Engine) mapSort(ks, vs string) string {
	name := "Map_" + mangle(ks) + "_" + mangle(vs)
	if _, ok := e.dtSet["map:"+ks+":"+vs]; !ok {
		e.dtSet["map:"+ks+":"+vs] = name
		e.dtOrder = append(e.dtOrder, fmt.Sprintf("(declare-datatypes ((%s 0)) (((mk_%s (has_%s (Array %s Bool)) (val_%s (Array %s %s))))))", name, name, name, ks, name, ks, vs))
	}
	return name
}

func shortTypeName(t types.Type) string {
	if n, ok := t.(*types.Named); ok {
		pk := ""
		if n.Obj().Pkg() != nil {
			pk = n.Obj().Pkg().Name() + "_"
		}
		return pk + n.Obj().Name()
	}
	return sanitize(typeString(t))
}

func (e *Engine) structSort(t types.Type, u *types.Struct) string {
	ts := typeString(t)
	if s, ok := e.dtSet[ts]; ok {
		return s
	}
	if e.inProgress[ts] {
		panic("recursive struct type " + ts)
	}
	e.inProgress[ts] = true
	defer delete(e.inProgress, ts)
	// compute field sorts first: a failure must not leave a partial declaration behind
	var fs []dtField
	for i := 0; i < u.NumFields(); i++ {
		f := u.Field(i)
		fs = append(fs, dtField{Name: f.Name(), Typ: f.Type(), Sort: e.sortOf(f.Type())})
	}
	name := "S_" + shortTypeName(t)
	for i := 2; ; i++ {
		clash := false
		for _, v := range e.dtSet {
			if v == name {
				clash = true
			}
		}
		if !clash {
			break
		}
		name = fmt.Sprintf("S_%s%d", shortTypeName(t), i)
	}
	e.dtSet[ts] = name
	var sb strings.Builder
	fmt.Fprintf(&sb, "(declare-datatypes ((%s 0)) (((mk_%s", name, name)
	for _, f := range fs {
		fmt.Fprintf(&sb, " (%s_%s %s)", name, f.Name, f.Sort)
	}
	sb.WriteString("))))")
	e.dtFields[name] = fs
	e.dtOrder = append(e.dtOrder, sb.String())
	return name
}

// dynConFor returns the Dyn constructor for a concrete type stored in an interface.
func (e *Engine) dynConFor(t types.Type) dynCon {
	ts := typeString(t)
	if i, ok := e.dynSet[ts]; ok {
		return e.dynCons[i]
	}
	so := e.sortOf(t)
	c := dynCon{Name: "dyn_" + sanitize(shortTypeName(derefType(t))), Typ: t, Sort: so}
	if _, isPtr := t.(*types.Pointer); isPtr {
		c.Name += "_p"
	}
	for i, base := 2, c.Name; ; i++ {
		clash := false
		for _, o := range e.dynCons {
			if o.Name == c.Name {
				clash = true
			}
		}
		if !clash {
			break
		}
		c.Name = fmt.Sprintf("%s%d", base, i)
	}
	e.dynSet[ts] = len(e.dynCons)
	e.dynCons = append(e.dynCons, c)
	return c
}

func derefType(t types.Type) types.Type {
	if p, ok := t.(*types.Pointer); ok {
		return p.Elem()
	}
	return t
}

func (e *Engine) dynDecl() string {
	var sb strings.Builder
	sb.WriteString("(declare-datatypes ((Dyn 0)) (((dyn_nil) (dyn_other (dyn_other_id Int))")
	cons := append([]dynCon(nil), e.dynCons...)
	sort.Slice(cons, func(i, j int) bool { return cons[i].Name < cons[j].Name })
	for _, c := range cons {
		fmt.Fprintf(&sb, " (%s (%s_v %s))", c.Name, c.Name, c.Sort)
	}
	sb.WriteString(")))")
	return sb.String()
}

// ---------------------------------------------------------------------------
// reify: executor value -> SMT term of sortOf(t).

func (e *Engine) reify(st *State, v Val, t types.Type) T {
	so := e.sortOf(t)
	switch x := v.(type) {
	case T:
		if x.So != so && !(so == SInt && x.So == SInt) {
			panic(fmt.Sprintf("reify: sort mismatch %s vs %s for %s (%s)", x.So, so, typeString(t), x.S))
		}
		return x
	case NilV:
		switch t.Underlying().(type) {
		case *types.Slice:
			if so == SString {
				return T{S: `""`, So: SString}
			}
			return T{S: fmt.Sprintf("(mk_%s %s 0)", so, e.fresh("nilarr", "(Array Int "+e.elemSortOfSlice(so)+")").S), So: so}
		case *types.Interface:
			return T{S: "dyn_nil", So: "Dyn"}
		}
		return e.fresh("nilval", so)
	case *StructV:
		if x.Orig != nil && x.Orig.So == so {
			return *x.Orig
		}
		u := t.Underlying().(*types.Struct)
		var sb strings.Builder
		fmt.Fprintf(&sb, "(mk_%s", so)
		if u.NumFields() == 0 {
			return T{S: "mk_" + so, So: so}
		}
		for i := 0; i < u.NumFields(); i++ {
			sb.WriteByte(' ')
			sb.WriteString(e.reify(st, x.F[i], u.Field(i).Type()).S)
		}
		sb.WriteByte(')')
		return T{S: sb.String(), So: so}
	case *PtrV:
		pt, ok := t.Underlying().(*types.Pointer)
		if !ok {
			panic("reify: pointer value for non-pointer type " + typeString(t))
		}
		if _, live := st.Heap[x.Obj]; x.Nil.S == "true" || !live {
			if so == "Dyn" {
				return T{S: "dyn_nil", So: "Dyn"}
			}
			return e.fresh("nilptr", so)
		}
		return e.reify(st, e.load(st, x), pt.Elem())
	case *SliceV:
		if so == SString {
			// byte buffer: its current contents
			if x.Back < 0 {
				return T{S: `""`, So: SString}
			}
			switch cur := st.Heap[x.Back].(type) {
			case T:
				if x.Off.S == "0" {
					return T{S: cur.S, So: SString}
				}
				return app(SString, "str.substr", cur, x.Off, x.Len)
			case *ArrV:
				s := byteArrString(cur)
				if x.Off.S != "0" || x.Len.S != fmt.Sprint(len(cur.Elems)) {
					s = app(SString, "str.substr", s, x.Off, x.Len)
				}
				return s
			}
		}
		if x.Back < 0 {
			return T{S: fmt.Sprintf("(mk_%s %s 0)", so, e.fresh("nilarr", "(Array Int "+e.elemSortOfSlice(so)+")").S), So: so}
		}
		arr := e.backingArray(st, x)
		if x.Off.S != "0" {
			panic("reify: slice with non-zero offset")
		}
		// eta: the slice made of the array and the length of one slice term is that term (keeps spec functions over
		// slices syntactically connected across loop cuts)
		if pre := "(arr_" + so + " "; strings.HasPrefix(arr.S, pre) && strings.HasSuffix(arr.S, ")") {
			inner := arr.S[len(pre) : len(arr.S)-1]
			if x.Len.S == "(len_"+so+" "+inner+")" {
				return T{S: inner, So: so}
			}
		}
		return T{S: fmt.Sprintf("(mk_%s %s %s)", so, arr.S, x.Len.S), So: so}
	case *ArrV:
		if so == SString {
			return byteArrString(x)
		}
		// array value -> slice datatype
		es := e.sortOf(x.Elem)
		arr := e.fresh("arr", "(Array Int "+es+")")
		cur := arr
		for i, el := range x.Elems {
			cur = T{S: fmt.Sprintf("(store %s %d %s)", cur.S, i, e.reify(st, el, x.Elem).S), So: arr.So}
		}
		return T{S: fmt.Sprintf("(mk_%s %s %d)", so, cur.S, len(x.Elems)), So: so}
	case *IfaceV:
		return e.ifaceDyn(st, x)
	case *MapV:
		return e.reify(st, st.Heap[x.Obj], t)
	case *OpaqueV:
		if x.Tag == "any" {
			return x.Data["dyn"].(T)
		}
	}
	panic(fmt.Sprintf("reify: unsupported value %T for type %s", v, typeString(t)))
}

func (e *Engine) elemSortOfSlice(slcSort string) string {
	for k, v := range e.dtSet {
		if v == slcSort && strings.HasPrefix(k, "slice:") {
			return k[len("slice:"):]
		}
	}
	panic("unknown slice sort " + slcSort)
}

func (e *Engine) ifaceDyn(st *State, x *IfaceV) T {
	if x.Sym {
		return x.Dyn
	}
	if x.Typ == nil {
		return T{S: "dyn_nil", So: "Dyn"}
	}
	c := e.dynConFor(x.Typ)
	return T{S: fmt.Sprintf("(%s %s)", c.Name, e.reify(st, x.V, x.Typ).S), So: "Dyn"}
}

// backingArray returns the SMT array for a slice's backing object (converting ArrV).
func (e *Engine) backingArray(st *State, s *SliceV) T {
	b := st.Heap[s.Back]
	switch bb := b.(type) {
	case T:
		return bb
	case *ArrV:
		es := e.sortOf(bb.Elem)
		arr := e.baseArray(es)
		cur := arr
		for i, el := range bb.Elems {
			cur = T{S: fmt.Sprintf("(store %s %d %s)", cur.S, i, e.reify(st, el, bb.Elem).S), So: arr.So}
		}
		return cur
	}
	panic(fmt.Sprintf("backingArray: bad backing %T", b))
}

// baseArray: canonical base for array literals (constant array for scalar sorts, fresh otherwise).
func (e *Engine) baseArray(es string) T {
	so := "(Array Int " + es + ")"
	switch es {
	case SString:
		return T{S: fmt.Sprintf("((as const %s) \"\")", so), So: so}
	case SInt:
		return T{S: fmt.Sprintf("((as const %s) 0)", so), So: so}
	case SBool:
		return T{S: fmt.Sprintf("((as const %s) false)", so), So: so}
	}
	return e.fresh("arr", so)
}

// reflect: SMT term of sortOf(t) -> executor value of Go type t.
func (e *Engine) reflect(st *State, x T, t types.Type) Val {
	ts := typeString(t)
	switch ts {
	case tySdkInt, tySdkUint, tySdkDec, tyTime, tyDuration, tyAddress, tyHash, tyValidator:
		return x
	}
	if isBytesLike(t) {
		return x
	}
	switch u := t.Underlying().(type) {
	case *types.Basic:
		return x
	case *types.Pointer:
		if typeString(u.Elem()) == tyBigInt {
			o := e.newObj(st, x)
			return &PtrV{Nil: TFalse, Obj: o, Elem: u.Elem()}
		}
		if typeString(u.Elem()) == tyAny {
			o := e.newObj(st, &OpaqueV{Tag: "any", Data: map[string]Val{"dyn": x}})
			return &PtrV{Nil: TFalse, Obj: o, Elem: u.Elem()}
		}
		inner := e.reflect(st, x, u.Elem())
		o := e.newObj(st, inner)
		return &PtrV{Nil: TFalse, Obj: o, Elem: u.Elem()}
	case *types.Struct:
		if ts == tyAny {
			return &OpaqueV{Tag: "any", Data: map[string]Val{"dyn": x}}
		}
		so := e.structSort(t, u)
		orig := x
		sv := &StructV{Typ: t, F: make([]Val, u.NumFields()), Orig: &orig}
		for i := 0; i < u.NumFields(); i++ {
			f := u.Field(i)
			ft := T{S: fmt.Sprintf("(%s_%s %s)", so, f.Name(), x.S), So: e.sortOf(f.Type())}
			sv.F[i] = e.reflect(st, ft, f.Type())
		}
		return sv
	case *types.Slice:
		so := e.sortOf(t)
		es := e.sortOf(u.Elem())
		arr := T{S: fmt.Sprintf("(arr_%s %s)", so, x.S), So: "(Array Int " + es + ")"}
		ln := T{S: fmt.Sprintf("(len_%s %s)", so, x.S), So: SInt}
		o := e.newObj(st, arr)
		e.objElem[o] = u.Elem()
		st.assume(Ge(ln, IntLit(0)), "slice length >= 0")
		return &SliceV{Back: o, Off: IntLit(0), Len: ln, Elem: u.Elem()}
	case *types.Interface:
		for _, c := range e.implementers(t) {
			e.dynConFor(c)
		}
		return &IfaceV{Sym: true, Dyn: x}
	case *types.Map:
		o := e.newObj(st, x)
		return &MapV{Obj: o}
	}
	panic("reflect: unsupported type " + ts)
}

// freshVal creates an unconstrained symbolic value of Go type t (with machine-range assumptions).
func (e *Engine) freshVal(st *State, hint string, t types.Type) Val {
	ts := typeString(t)
	switch ts {
	case tyCtx:
		h := e.fresh("blockHeight", SInt)
		tm := e.fresh("blockTime", SInt)
		st.assume(Ge(h, IntLit(0)), "block height >= 0")
		return &CtxV{World: 0, Height: h, Time: tm}
	}
	if !e.modelled(t) {
		// unmodelled (library) types: structure is followed only a few levels deep and only for repository types
		e.freshDepth++
		defer func() { e.freshDepth-- }()
		if e.freshDepth > 8 || e.freshBusy[ts] {
			return &OpaqueV{Tag: ts}
		}
		if e.freshBusy == nil {
			e.freshBusy = map[string]bool{}
		}
		e.freshBusy[ts] = true
		defer delete(e.freshBusy, ts)
		if u, ok := t.Underlying().(*types.Struct); ok && !tsIsSpecial(ts) {
			sv := &StructV{Typ: t}
			for i := 0; i < u.NumFields(); i++ {
				sv.F = append(sv.F, e.freshVal(st, u.Field(i).Name(), u.Field(i).Type()))
			}
			return sv
		}
		if p, ok := t.Underlying().(*types.Pointer); ok {
			if _, isS := p.Elem().Underlying().(*types.Struct); isS && !tsIsSpecial(typeString(p.Elem())) {
				o := e.newObj(st, e.freshVal(st, hint, p.Elem()))
				return &PtrV{Nil: TFalse, Obj: o, Elem: p.Elem()}
			}
		}
		return &OpaqueV{Tag: ts}
	}
	switch u := t.Underlying().(type) {
	case *types.Pointer:
		if typeString(u.Elem()) == tyBigInt {
			o := e.newObj(st, e.fresh(hint, SInt))
			return &PtrV{Nil: TFalse, Obj: o, Elem: u.Elem()}
		}
		if !e.modelled(u.Elem()) {
			return &OpaqueV{Tag: ts}
		}
		inner := e.freshVal(st, hint, u.Elem())
		o := e.newObj(st, inner)
		return &PtrV{Nil: TFalse, Obj: o, Elem: u.Elem()}
	case *types.Signature:
		return &OpaqueV{Tag: "func:" + ts}
	}
	so := e.sortOf(t)
	x := e.fresh(hint, so)
	e.rangeAssume(st, x, t)
	r := e.reflect(st, x, t)
	if _, isS := t.Underlying().(*types.Struct); isS {
		e.assumeFieldRanges(st, r, t, 3)
	}
	return r
}

// modelled: can values of this type be given an SMT sort?
func (e *Engine) modelled(t types.Type) (ok bool) {
	defer func() {
		if r := recover(); r != nil {
			ok = false
		}
	}()
	ts := typeString(t)
	if strings.Contains(ts, "codec.") || strings.Contains(ts, "StoreKey") || strings.Contains(ts, "Subspace") || strings.Contains(ts, "log.Logger") {
		return false
	}
	switch u := t.Underlying().(type) {
	case *types.Interface:
		// only interfaces implemented by types of the loaded packages are modelled as Dyn
		_ = u
		return len(e.implementers(t)) > 0
	case *types.Signature, *types.Chan:
		return false
	case *types.Struct:
		for i := 0; i < u.NumFields(); i++ {
			if !e.modelled(u.Field(i).Type()) {
				if tsIsSpecial(ts) {
					return true
				}
				return false
			}
		}
	case *types.Pointer:
		return e.modelled(u.Elem())
	case *types.Slice:
		return e.modelled(u.Elem())
	case *types.Map:
		return e.modelled(u.Key()) && e.modelled(u.Elem())
	}
	e.sortOf(t)
	return true
}

func tsIsSpecial(ts string) bool {
	switch ts {
	case tySdkInt, tySdkUint, tySdkDec, tyTime, tyDuration, tyAddress, tyHash, tyAny, tyBigInt, tyValidator:
		return true
	}
	return false
}

func (e *Engine) sortable(t types.Type) (ok bool) {
	defer func() {
		if r := recover(); r != nil {
			ok = false
		}
	}()
	e.sortOf(t)
	return true
}

// rangeAssume adds machine-integer range facts for a fresh term of type t (recursively through datatypes is NOT done;
// nested fields get their ranges when they are read, see intRange).
func (e *Engine) rangeAssume(st *State, x T, t types.Type) {
	if r := intRange(x, t); r.S != "true" {
		st.assume(r, "machine range of "+x.S)
	}
}

func intRange(x T, t types.Type) T {
	ts := typeString(t)
	switch ts {
	case tySdkInt:
		// type invariant of sdk.Int: |v| < 2^256 (every constructor and arithmetic method enforces it)
		return And(Lt(x, BigLit(two256v)), Gt(x, BigLit(new(big.Int).Neg(two256v))))
	case tySdkDec, tyTime, tyDuration:
		return TTrue
	case tySdkUint:
		return And(Ge(x, IntLit(0)), Lt(x, BigLit(two256v)))
	}
	b, ok := t.Underlying().(*types.Basic)
	if !ok || b.Info()&types.IsInteger == 0 {
		return TTrue
	}
	switch b.Kind() {
	case types.Uint64, types.Uint, types.Uintptr:
		return And(Ge(x, IntLit(0)), Lt(x, BigLit(two64)))
	case types.Uint32:
		return And(Ge(x, IntLit(0)), Lt(x, IntLit(1<<32)))
	case types.Uint16:
		return And(Ge(x, IntLit(0)), Lt(x, IntLit(1<<16)))
	case types.Uint8:
		return And(Ge(x, IntLit(0)), Lt(x, IntLit(256)))
	case types.Int64, types.Int:
		return And(Ge(x, T{S: "(- 9223372036854775808)", So: SInt}), Lt(x, BigLit(two63)))
	case types.Int32:
		return And(Ge(x, IntLit(-(1 << 31))), Lt(x, IntLit(1<<31)))
	}
	return TTrue
}

// implementers: concrete named types (T or *T) in the loaded program implementing interface t.
func (e *Engine) implementers(t types.Type) []types.Type {
	ts := typeString(t)
	if r, ok := e.implCache[ts]; ok {
		return r
	}
	iface, ok := t.Underlying().(*types.Interface)
	var res []types.Type
	if ok && iface.NumMethods() > 0 {
		for _, p := range e.prog.AllPackages() {
			if p.Pkg == nil || !strings.Contains(p.Pkg.Path(), "MinterTeam/mhub2") || !strings.HasSuffix(p.Pkg.Path(), "/types") {
				continue // only message types (the mocks of keeper/test_common.go are not candidates)
			}
			for _, m := range p.Members {
				tn, ok := m.(*ssa.Type)
				if !ok {
					continue
				}
				nt := tn.Type()
				if _, isI := nt.Underlying().(*types.Interface); isI {
					continue
				}
				if _, isS := nt.Underlying().(*types.Struct); !isS {
					continue
				}
				if types.Implements(nt, iface) {
					if e.sortable(nt) {
						res = append(res, nt)
					}
				} else if types.Implements(types.NewPointer(nt), iface) {
					if e.sortable(nt) {
						res = append(res, types.NewPointer(nt))
					}
				}
			}
		}
	}
	sort.Slice(res, func(i, j int) bool { return typeString(res[i]) < typeString(res[j]) })
	e.implCache[ts] = res
	return res
}

// ---------------------------------------------------------------------------
// Heap access.

func (e *Engine) load(st *State, p *PtrV) Val {
	v, ok := st.Heap[p.Obj]
	if !ok {
		panic(fmt.Sprintf("load: dangling object %d", p.Obj))
	}
	return e.getPath(st, v, p.Path)
}

func (e *Engine) getPath(st *State, v Val, path []PathEl) Val {
	for _, pe := range path {
		switch x := v.(type) {
		case *StructV:
			v = x.F[pe.Field]
		case *ArrV:
			i, ok := isLit(*pe.Idx)
			if !ok {
				panic("getPath: symbolic index into concrete array")
			}
			if int(i) >= len(x.Elems) {
				panic("getPath: index out of range")
			}
			v = x.Elems[i]
		case T:
			if x.So == SString {
				// mutable byte buffer: element read
				v = app(SInt, "str.to_code", app(SString, "str.at", x, *pe.Idx))
				continue
			}
			// SMT array term: select then reflect
			es, elemT := arrayElemOf(x, pe)
			sel := T{S: fmt.Sprintf("(select %s %s)", x.S, pe.Idx.S), So: es}
			_ = elemT
			v = sel
		default:
			panic(fmt.Sprintf("getPath: cannot descend into %T", v))
		}
	}
	return v
}

func arrayElemOf(x T, pe PathEl) (string, types.Type) {
	// x.So = "(Array Int E)"
	if !strings.HasPrefix(x.So, "(Array Int ") {
		panic("arrayElemOf: not an array sort: " + x.So)
	}
	return x.So[len("(Array Int ") : len(x.So)-1], nil
}

func (e *Engine) store(st *State, p *PtrV, nv Val) {
	old := st.Heap[p.Obj]
	st.Heap[p.Obj] = e.setPath(st, old, p.Path, nv, p)
	if st.Written != nil {
		st.Written[p.Obj] = true
	}
}

func (e *Engine) setPath(st *State, v Val, path []PathEl, nv Val, p *PtrV) Val {
	if len(path) == 0 {
		return nv
	}
	pe := path[0]
	switch x := v.(type) {
	case *StructV:
		c := &StructV{Typ: x.Typ, F: append([]Val(nil), x.F...)}
		c.F[pe.Field] = e.setPath(st, x.F[pe.Field], path[1:], nv, p)
		return c
	case *ArrV:
		i, ok := isLit(*pe.Idx)
		if !ok {
			panic("setPath: symbolic index into concrete array")
		}
		c := &ArrV{Elem: x.Elem, Elems: append([]Val(nil), x.Elems...)}
		c.Elems[i] = e.setPath(st, x.Elems[i], path[1:], nv, p)
		return c
	case T:
		if x.So == SString {
			// mutable byte buffer: element write
			nt, ok := nv.(T)
			if !ok || len(path) != 1 {
				panic("setPath: bad byte buffer write")
			}
			i := *pe.Idx
			ln := app(SInt, "str.len", x)
			return app(SString, "str.++", app(SString, "str.substr", x, IntLit(0), i), app(SString, "str.from_code", nt), app(SString, "str.substr", x, Add(i, IntLit(1)), Sub(Sub(ln, i), IntLit(1))))
		}
		es, _ := arrayElemOf(x, pe)
		if len(path) != 1 {
			panic("setPath: nested path below SMT array element (handled by caller)")
		}
		nt, ok := nv.(T)
		if !ok {
			panic(fmt.Sprintf("setPath: storing non-term %T into SMT array", nv))
		}
		_ = es
		return T{S: fmt.Sprintf("(store %s %s %s)", x.S, pe.Idx.S, nt.S), So: x.So}
	}
	panic(fmt.Sprintf("setPath: cannot descend into %T", v))
}


// byteArrString: a concrete-length byte array as an SMT String term.
func byteArrString(x *ArrV) T {
	var parts []T
	var lit []byte
	flush := func() {
		if len(lit) > 0 {
			parts = append(parts, T{S: smtStrLit(lit), So: SString, Segs: []Seg{{Kind: "const", Lit: lit, S: smtStrLit(lit)}}})
			lit = nil
		}
	}
	for _, el := range x.Elems {
		t := el.(T)
		if n, ok := isLit(t); ok {
			lit = append(lit, byte(n))
		} else {
			flush()
			parts = append(parts, app(SString, "str.from_code", t))
		}
	}
	flush()
	return Concat(parts...)
}

var two256v = new(big.Int).Lsh(big.NewInt(1), 256)
