package main

// Layer F: writer sets. For a key family whose value carries a history-level meaning (the last observed event
// nonce, a validator's last voted nonce, the last observed external height) the per-function contracts decide the
// property only if nothing else writes that family. This check finds, on every run, every module function with a
// store write of its own (an invoke of Set / Delete on a store interface), collects the key families it may write by
// executing it with every repository callee inlined (familyEffects), and requires each writer of the family to be one
// of the functions named here - all of which are under contract or are the genesis import. The direct writers are small
// setters; every call of such a setter (static call or bound method value) must come from a named function as well.

import (
	"fmt"
	"sort"
	"strings"
	"sync"

	"go/types"

	"golang.org/x/tools/go/ssa"
)

type writerRule struct {
	Family  string
	Allowed []string // short function names; a leading * marks a function whose callers must be named here as well
}

var writerRules = map[string][]writerRule{}

func init() {
	add := func(props []string, fam string, allowed ...string) {
		for _, p := range props {
			writerRules[p] = append(writerRules[p], writerRule{fam, allowed})
		}
	}
	gen := "InitGenesis"
	add([]string{"C03"}, "LastObservedNonce", "*(Keeper).setLastObservedEventNonce", "(Keeper).TryEventVoteRecord", gen)
	add([]string{"C02", "C03"}, "LastNonceByVal", "*(Keeper).setLastEventNonceByValidator", "(Keeper).recordEventVote", gen)
	add([]string{"C13"}, "LastExtHeight", "*(Keeper).SetLastObservedExternalBlockHeight", "(Keeper).TryEventVoteRecord", gen)
	add([]string{"C17"}, "ValExt", "*(Keeper).setValidatorExternalAddress", "(msgServer).SetDelegateKeys", gen)
	add([]string{"C17"}, "OrchVal", "*(Keeper).SetOrchestratorValidatorAddress", "(msgServer).SetDelegateKeys", gen)
	add([]string{"C17"}, "ExtOrch", "*(Keeper).setExternalOrchestratorAddress", "(msgServer).SetDelegateKeys", gen)
	add([]string{"C02", "C03"}, "Vote", "*(Keeper).setExternalEventVoteRecord", "(Keeper).TryEventVoteRecord", "(Keeper).recordEventVote", gen)
	add([]string{"C16"}, "Sig", "*(Keeper).SetExternalSignature", "*(Keeper).DeleteExternalSignature", "(msgServer).SubmitTxConfirmation", gen)
	add([]string{"C04", "C10", "C12"}, "Pool", "*(Keeper).setUnbatchedSendToExternal", "*(Keeper).deleteUnbatchedSendToExternal", "(Keeper).BuildBatchTx", "(Keeper).CancelBatchTx", "(Keeper).cancelSendToExternal", "(Keeper).createSendToExternal", gen)
	add([]string{"C04", "C13"}, "OutTx", "*(Keeper).SetOutgoingTx", "*(Keeper).DeleteOutgoingTx", "(Keeper).BuildBatchTx", "(Keeper).CancelBatchTx", "(Keeper).CreateContractCallTx", "(Keeper).CreateSignerSetTx", "(Keeper).batchTxExecuted", "cleanupTimedOutContractCallTxs", "pruneSignerSetTxs", gen)
	add([]string{"C18"}, "OAtt", "*(Keeper).SetAttestation", "*(Keeper).SetAttestationUnsafe", "*(Keeper).DeleteAttestation", "(Keeper).AddClaim", "(Keeper).ProcessCurrentEpoch")
	add([]string{"C04"}, "LastSteID", "*(Keeper).incrementLastSendToExternalIDKey", "(Keeper).createSendToExternal")
	add([]string{"C10"}, "LastBatchNonce", "*(Keeper).setLastOutgoingBatchNonce", "*(Keeper).incrementLastOutgoingBatchNonce", "*(Keeper).SetLastOutgoingBatchNonce", "(Keeper).BuildBatchTx", gen)
	add([]string{"C09"}, "LatestSSNonce", "*(Keeper).incrementLatestSignerSetTxNonce", "*(Keeper).SetLatestSignerSetTxNonce", "(Keeper).CreateSignerSetTx")
	add([]string{"C09"}, "LastObservedSS", "*(Keeper).setLastObservedSignerSetTx", "(ExternalEventProcessor).Handle", gen)
	add([]string{"C04", "C12"}, "TxStatusF", "*(Keeper).SetTxStatus", "(ExternalEventProcessor).Handle", "(Keeper).BuildBatchTx", "(Keeper).batchTxExecuted", "(Keeper).cancelSendToExternal")
	add([]string{"C19"}, "TxFeeRecordF", "*(Keeper).SetTxFeeRecord", "(Keeper).batchTxExecuted")
	add([]string{"C18"}, "OEpoch", "*(Keeper).setCurrentEpoch", "(Keeper).ProcessCurrentEpoch", gen)
	add([]string{"C18"}, "OPrices", "*(Keeper).storePrices", "(AttestationHandler).Handle", gen)
	add([]string{"C18"}, "OHolders", "*(Keeper).storeHolders", "(AttestationHandler).Handle", gen)
}

func hasOwnStoreWrite(fn *ssa.Function) bool {
	for _, b := range fn.Blocks {
		for _, in := range b.Instrs {
			ci, ok := in.(ssa.CallInstruction)
			if !ok {
				continue
			}
			cc := ci.Common()
			name := ""
			if cc.IsInvoke() {
				name = cc.Method.Name()
			} else if sc := cc.StaticCallee(); sc != nil && sc.Signature.Recv() != nil {
				name = sc.Name()
				if !strings.Contains(typeString(sc.Signature.Recv().Type()), "tore") {
					continue
				}
			}
			if name == "Set" || name == "Delete" {
				return true
			}
		}
	}
	return false
}

func writerSetCheck(l *Loaded, prop string) []*OblReport {
	rules := writerRules[prop]
	if len(rules) == 0 {
		return nil
	}
	type res struct {
		fn     *ssa.Function
		writes map[string]bool
		err    string
	}
	var cands []*ssa.Function
	for _, fn := range moduleFunctions(l) {
		if hasOwnStoreWrite(fn) {
			cands = append(cands, fn)
		}
	}
	out := make([]res, len(cands))
	var wg sync.WaitGroup
	sem := make(chan struct{}, 8)
	for i, fn := range cands {
		i, fn := i, fn
		wg.Add(1)
		go func() {
			defer wg.Done()
			sem <- struct{}{}
			defer func() { <-sem }()
			_, w, err := familyEffects(l, fn)
			out[i] = res{fn, w, err}
		}()
	}
	wg.Wait()
	var reps []*OblReport
	for _, r := range rules {
		rep := &OblReport{Name: fmt.Sprintf("%s/F/writers/%s", prop, r.Family), Kind: fmt.Sprintf("writer-set: of %d module functions with a store write of their own, only %s write %s", len(cands), strings.ReplaceAll(strings.Join(r.Allowed, ", "), "*", ""), r.Family), Func: "module x/mhub2", Solver: "effects", Status: "discharged"}
		allowed := map[string]bool{}
		setters := map[string]bool{}
		for _, a := range r.Allowed {
			if strings.HasPrefix(a, "*") {
				setters[a[1:]] = true
			}
			allowed[strings.TrimPrefix(a, "*")] = true
		}
		var bad, undecided []string
		seenAllowed := 0
		for _, o := range out {
			name := shortFuncName(o.fn)
			if o.fn.Parent() != nil {
				// a closure writes on behalf of the function that contains it
				p := o.fn
				for p.Parent() != nil {
					p = p.Parent()
				}
				name = shortFuncName(p)
			}
			if allowed[name] {
				if o.writes[r.Family] {
					seenAllowed++
				}
				continue
			}
			if o.err != "" {
				undecided = append(undecided, name)
				continue
			}
			if o.writes[r.Family] {
				bad = append(bad, fmt.Sprintf("%s (%s)", name, l.prog.Fset.Position(o.fn.Pos())))
			}
		}
		// call graph: the direct writers are small setters; whoever calls one of them writes the family too
		for _, fn := range moduleFunctions(l) {
			top := fn
			for top.Parent() != nil {
				top = top.Parent()
			}
			if allowed[shortFuncName(top)] {
				continue
			}
			for _, b := range fn.Blocks {
				for _, in := range b.Instrs {
					var callee *ssa.Function
					switch v := in.(type) {
					case ssa.CallInstruction:
						callee = v.Common().StaticCallee()
					case *ssa.MakeClosure:
						callee, _ = v.Fn.(*ssa.Function) // a bound method value of a setter
						if callee != nil && callee.Synthetic != "" && callee.Object() != nil {
							if f := l.prog.FuncValue(callee.Object().(*types.Func)); f != nil {
								callee = f
							}
						}
					}
					if callee != nil && callee.Blocks != nil && setters[shortFuncName(callee)] && isRepoFn(callee) {
						bad = append(bad, fmt.Sprintf("%s through %s (%s)", shortFuncName(top), shortFuncName(callee), l.prog.Fset.Position(in.Pos())))
					}
				}
			}
		}
		sort.Strings(bad)
		sort.Strings(undecided)
		switch {
		case len(bad) > 0:
			rep.Status = fmt.Sprintf("failed: %s is also written by %s", r.Family, strings.Join(bad, ", "))
		case seenAllowed == 0:
			rep.Status = "failed: none of the named writers was found writing " + r.Family + " (vacuous writer set)"
		case len(undecided) > 0:
			rep.Kind += fmt.Sprintf("; not analysable, hence not covered: %s", strings.Join(undecided, ", "))
		}
		reps = append(reps, rep)
	}
	return reps
}
