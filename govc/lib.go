package main

// Assumed contracts (models) of library functions outside /repo. Every model here is an ASSUMPTION; the list of
// models actually used by a run is copied into the evidence.

import (
	"crypto/sha256"
	"sync"
	"fmt"
	"go/types"
	"math/big"
	"strings"
)

type libFn func(x *Exec, st *State, ci *callInfo, args []Val, k func(*State, Val))
type ifaceFn func(x *Exec, st *State, ci *callInfo, recv Val, args []Val, k func(*State, Val))
type opaqueFn func(x *Exec, st *State, ci *callInfo, fn *OpaqueV, args []Val, k func(*State, Val))

var libModels = map[string]libFn{}
var ifaceModels = map[string]ifaceFn{}
var opaqueCallModels = map[string]opaqueFn{}
var globalModels = map[string]func(*Exec, *State) Val{}
var libDoc = map[string]string{}

const sdkT = "github.com/cosmos/cosmos-sdk/types."

type bigInt = big.Int

var bigOne = big.NewInt(1)

func simple(doc string, f func(x *Exec, st *State, ci *callInfo, a []Val) Val) libFn {
	return func(x *Exec, st *State, ci *callInfo, args []Val, k func(*State, Val)) {
		x.usedModels[ci.name] = doc
		k(st, x.nameResult(st, f(x, st, ci, args)))
	}
}

// nameResult binds large result terms of library models to fresh constants (keeps the VCs small).
func (x *Exec) nameResult(st *State, v Val) Val {
	switch r := v.(type) {
	case T:
		if r.Segs == nil && r.Nil == "" && len(r.S) > 60 {
			return x.named(st, r, "v")
		}
	case *TupleV:
		n := &TupleV{}
		for _, e := range r.Vs {
			n.Vs = append(n.Vs, x.nameResult(st, e))
		}
		return n
	case *ErrV:
		if len(r.IsNil.S) > 60 {
			return &ErrV{IsNil: x.named(st, r.IsNil, "ok")}
		}
	}
	return v
}

func reg(name, doc string, f func(x *Exec, st *State, ci *callInfo, a []Val) Val) {
	libModels[name] = simple(doc, f)
	libDoc[name] = doc
}

func regI(name, doc string, f func(x *Exec, st *State, ci *callInfo, recv Val, a []Val) Val) {
	ifaceModels[name] = func(x *Exec, st *State, ci *callInfo, recv Val, args []Val, k func(*State, Val)) {
		x.usedModels[name] = doc
		k(st, f(x, st, ci, recv, args))
	}
	libDoc[name] = doc
}

var two256 = new(big.Int).Lsh(big.NewInt(1), 256)

func overflow256(t T) T {
	return Or(Ge(t, BigLit(two256)), Le(t, BigLit(new(big.Int).Neg(two256))))
}

func tt(v Val) T {
	t, ok := v.(T)
	if !ok {
		panic(execError{fmt.Sprintf("library model expected a term, got %T", v)})
	}
	return t
}

// bigOf: *big.Int pointer -> current value term
func (x *Exec) bigOf(st *State, v Val, ci *callInfo) T {
	p, ok := v.(*PtrV)
	if !ok {
		x.fail("expected *big.Int, got %T", v)
	}
	x.panicIf(st, p.Nil, "nil-big.Int", ci.pos)
	return st.Heap[p.Obj].(T)
}

func (x *Exec) newBig(st *State, v T) Val {
	o := x.e.newObj(st, v)
	return &PtrV{Nil: TFalse, Obj: o}
}

func (x *Exec) setBig(st *State, recv Val, v T) Val {
	p := recv.(*PtrV)
	st.Heap[p.Obj] = v
	if st.Written != nil {
		st.Written[p.Obj] = true
	}
	return recv
}

const e18 = "1000000000000000000"

// chopRound: banker's rounding of x / 10^18 (sdk.Dec chopPrecisionAndRound)
func chopRound(x T) T { return app(SInt, "choprnd", x) }
func chopTrunc(x T) T { return TQuo(x, T{S: e18, So: SInt}) }

const decPrelude = `
(define-fun choprnd_pos ((x Int)) Int (let ((q (div x 1000000000000000000)) (r (mod x 1000000000000000000))) (ite (< r 500000000000000000) q (ite (> r 500000000000000000) (+ q 1) (ite (= (mod q 2) 0) q (+ q 1))))))
(define-fun choprnd ((x Int)) Int (ite (>= x 0) (choprnd_pos x) (- (choprnd_pos (- x)))))
`

func coinOf(x *Exec, v Val) (denom, amt T) {
	s, ok := v.(*StructV)
	if !ok {
		x.fail("expected sdk.Coin struct, got %T", v)
	}
	return tt(s.F[0]), tt(s.F[1])
}

func (x *Exec) mkCoin(ci *callInfo, denom, amt T) Val {
	return &StructV{Typ: x.coinType(ci), F: []Val{denom, amt}}
}

var coinTyp types.Type
var coinMu sync.Mutex

func (x *Exec) coinType(ci *callInfo) types.Type {
	coinMu.Lock()
	defer coinMu.Unlock()
	if coinTyp != nil {
		return coinTyp
	}
	for _, p := range x.e.prog.AllPackages() {
		if p.Pkg != nil && p.Pkg.Path() == "github.com/cosmos/cosmos-sdk/types" {
			coinTyp = p.Type("Coin").Type()
			return coinTyp
		}
	}
	x.fail("sdk.Coin type not found")
	return nil
}

// coinsSingle: sdk.Coins with statically known elements.
func (x *Exec) coinsElems(st *State, v Val) []Val {
	switch c := v.(type) {
	case *SliceV:
		if c.Back < 0 {
			return nil
		}
		n, ok := isLit(c.Len)
		if !ok {
			x.fail("sdk.Coins with symbolic length is not modelled")
		}
		var res []Val
		for i := int64(0); i < n; i++ {
			idx := Add(c.Off, IntLit(i))
			res = append(res, x.e.getPath(st, st.Heap[c.Back], []PathEl{{Field: -1, Idx: &idx}}))
		}
		return res
	case NilV:
		return nil
	}
	x.fail("expected sdk.Coins, got %T", v)
	return nil
}

func init() {
	// ---- sdk.Int ---------------------------------------------------------------------------------------
	reg(sdkT+"NewInt", "NewInt(n) = n", func(x *Exec, st *State, ci *callInfo, a []Val) Val { return a[0] })
	reg(sdkT+"NewIntFromUint64", "NewIntFromUint64(n) = n", func(x *Exec, st *State, ci *callInfo, a []Val) Val { return a[0] })
	reg(sdkT+"ZeroInt", "0", func(x *Exec, st *State, ci *callInfo, a []Val) Val { return IntLit(0) })
	reg(sdkT+"OneInt", "1", func(x *Exec, st *State, ci *callInfo, a []Val) Val { return IntLit(1) })
	reg(sdkT+"NewIntFromBigInt", "value of the big.Int; panics iff |v| >= 2^256 (BitLen > 256); nil big.Int not modelled", func(x *Exec, st *State, ci *callInfo, a []Val) Val {
		v := x.bigOf(st, a[0], ci)
		x.panicIf(st, overflow256(v), "NewIntFromBigInt-out-of-bound", ci.pos)
		return v
	})
	reg(sdkT+"NewIntFromString", "(parseint(s), parseintok(s)); ok implies |v| < 2^256; accepts a leading sign", func(x *Exec, st *State, ci *callInfo, a []Val) Val {
		x.e.declareFun("uf_parseint", "(String) Int")
		x.e.declareFun("uf_parseintok", "(String) Bool")
		v := app(SInt, "uf_parseint", tt(a[0]))
		ok := app(SBool, "uf_parseintok", tt(a[0]))
		st.assume(Implies(ok, Not(overflow256(v))), "NewIntFromString ok => in range")
		return &TupleV{Vs: []Val{Ite(ok, v, IntLit(0)), ok}}
	})
	arith := func(name, doc string, f func(a, b T) T, ovf bool) {
		reg("("+sdkT+"Int)."+name, doc, func(x *Exec, st *State, ci *callInfo, a []Val) Val {
			r := f(tt(a[0]), tt(a[1]))
			if ovf {
				x.panicIf(st, overflow256(r), "Int-overflow-"+name, ci.pos)
			}
			return r
		})
	}
	arith("Add", "a+b; panics iff |result| >= 2^256", Add, true)
	arith("Sub", "a-b; panics iff |result| >= 2^256", Sub, true)
	arith("Mul", "a*b; panics iff |result| >= 2^256", Mul, true)
	arith("AddRaw", "a+b; panics iff |result| >= 2^256", Add, true)
	arith("SubRaw", "a-b; panics iff |result| >= 2^256", Sub, true)
	arith("MulRaw", "a*b; panics iff |result| >= 2^256", Mul, true)
	quo := func(x *Exec, st *State, ci *callInfo, a []Val) Val {
		x.panicIf(st, Eq(tt(a[1]), IntLit(0)), "Int-division-by-zero", ci.pos)
		return TQuo(tt(a[0]), tt(a[1]))
	}
	reg("("+sdkT+"Int).Quo", "truncated quotient; panics iff divisor is 0", quo)
	reg("("+sdkT+"Int).QuoRaw", "truncated quotient; panics iff divisor is 0", quo)
	cmp := func(name string, f func(a, b T) T) {
		reg("("+sdkT+"Int)."+name, "integer comparison", func(x *Exec, st *State, ci *callInfo, a []Val) Val { return f(tt(a[0]), tt(a[1])) })
	}
	cmp("GT", Gt)
	cmp("GTE", Ge)
	cmp("LT", Lt)
	cmp("LTE", Le)
	cmp("Equal", Eq)
	reg("("+sdkT+"Int).IsZero", "v == 0", func(x *Exec, st *State, ci *callInfo, a []Val) Val { return Eq(tt(a[0]), IntLit(0)) })
	reg("("+sdkT+"Int).IsNegative", "v < 0", func(x *Exec, st *State, ci *callInfo, a []Val) Val { return Lt(tt(a[0]), IntLit(0)) })
	reg("("+sdkT+"Int).IsPositive", "v > 0", func(x *Exec, st *State, ci *callInfo, a []Val) Val { return Gt(tt(a[0]), IntLit(0)) })
	reg("("+sdkT+"Int).IsNil", "false (nil sdk.Int values are not modelled)", func(x *Exec, st *State, ci *callInfo, a []Val) Val { return TFalse })
	reg("("+sdkT+"Int).Neg", "-v", func(x *Exec, st *State, ci *callInfo, a []Val) Val { return app(SInt, "-", tt(a[0])) })
	reg("("+sdkT+"Int).BigInt", "fresh *big.Int copy with the same value", func(x *Exec, st *State, ci *callInfo, a []Val) Val { return x.newBig(st, tt(a[0])) })
	reg("("+sdkT+"Int).ToDec", "v * 10^18", func(x *Exec, st *State, ci *callInfo, a []Val) Val { return Mul(tt(a[0]), T{S: e18, So: SInt}) })
	reg("("+sdkT+"Int).Uint64", "v; panics iff v not in [0,2^64)", func(x *Exec, st *State, ci *callInfo, a []Val) Val {
		x.panicIf(st, Or(Lt(tt(a[0]), IntLit(0)), Ge(tt(a[0]), BigLit(two64))), "Int.Uint64-out-of-range", ci.pos)
		return a[0]
	})
	reg("("+sdkT+"Int).Int64", "v; panics iff v not in int64", func(x *Exec, st *State, ci *callInfo, a []Val) Val {
		x.panicIf(st, Or(Lt(tt(a[0]), T{S: "(- 9223372036854775808)", So: SInt}), Ge(tt(a[0]), BigLit(two63))), "Int.Int64-out-of-range", ci.pos)
		return a[0]
	})
	reg(sdkT+"MaxInt", "max", func(x *Exec, st *State, ci *callInfo, a []Val) Val { return app(SInt, "max_", tt(a[0]), tt(a[1])) })
	reg(sdkT+"MinInt", "min", func(x *Exec, st *State, ci *callInfo, a []Val) Val { return app(SInt, "min_", tt(a[0]), tt(a[1])) })

	// ---- sdk.Uint --------------------------------------------------------------------------------------
	reg(sdkT+"NewUint", "n", func(x *Exec, st *State, ci *callInfo, a []Val) Val { return a[0] })
	reg("("+sdkT+"Uint).MulUint64", "a*b; panics iff result >= 2^256", func(x *Exec, st *State, ci *callInfo, a []Val) Val {
		r := Mul(tt(a[0]), tt(a[1]))
		x.panicIf(st, Ge(r, BigLit(two256)), "Uint-overflow", ci.pos)
		return r
	})
	reg("("+sdkT+"Uint).QuoUint64", "a div b; panics iff b == 0", func(x *Exec, st *State, ci *callInfo, a []Val) Val {
		x.panicIf(st, Eq(tt(a[1]), IntLit(0)), "Uint-division-by-zero", ci.pos)
		return EDiv(tt(a[0]), tt(a[1]))
	})
	reg("("+sdkT+"Uint).Uint64", "v; panics iff v >= 2^64", func(x *Exec, st *State, ci *callInfo, a []Val) Val {
		x.panicIf(st, Ge(tt(a[0]), BigLit(two64)), "Uint.Uint64-overflow", ci.pos)
		return a[0]
	})

	// ---- sdk.Dec (value * 10^18) -----------------------------------------------------------------------
	dec := "(" + sdkT + "Dec)."
	reg(dec+"Mul", "round-half-even(a*b / 10^18); 315-bit overflow panic not modelled", func(x *Exec, st *State, ci *callInfo, a []Val) Val {
		// exact case: one operand is an integer converted with ToDec (x * 10^18): the product is divisible by 10^18
		for i := 0; i < 2; i++ {
			s := tt(a[i]).S
			if strings.HasPrefix(s, "(* ") && strings.HasSuffix(s, " "+e18+")") {
				return Mul(tt(a[1-i]), T{S: s[3 : len(s)-len(e18)-2], So: SInt})
			}
		}
		return chopRound(Mul(tt(a[0]), tt(a[1])))
	})
	reg(dec+"Quo", "round-half-even(trunc(a*10^36 / b) / 10^18); panics iff b == 0", func(x *Exec, st *State, ci *callInfo, a []Val) Val {
		x.panicIf(st, Eq(tt(a[1]), IntLit(0)), "Dec-division-by-zero", ci.pos)
		return chopRound(TQuo(Mul(tt(a[0]), T{S: e18 + "000000000000000000", So: SInt}), tt(a[1])))
	})
	reg(dec+"MulInt64", "a*n exactly", func(x *Exec, st *State, ci *callInfo, a []Val) Val { return Mul(tt(a[0]), tt(a[1])) })
	reg(dec+"QuoInt64", "trunc(a / n); panics iff n == 0", func(x *Exec, st *State, ci *callInfo, a []Val) Val {
		x.panicIf(st, Eq(tt(a[1]), IntLit(0)), "Dec-division-by-zero", ci.pos)
		return TQuo(tt(a[0]), tt(a[1]))
	})
	reg(dec+"MulInt", "a*n exactly", func(x *Exec, st *State, ci *callInfo, a []Val) Val { return Mul(tt(a[0]), tt(a[1])) })
	reg(dec+"Sub", "a-b", func(x *Exec, st *State, ci *callInfo, a []Val) Val { return Sub(tt(a[0]), tt(a[1])) })
	reg(dec+"Add", "a+b", func(x *Exec, st *State, ci *callInfo, a []Val) Val { return Add(tt(a[0]), tt(a[1])) })
	reg(dec+"TruncateInt", "trunc(a / 10^18); panics iff |result| >= 2^256", func(x *Exec, st *State, ci *callInfo, a []Val) Val {
		r := chopTrunc(tt(a[0]))
		x.panicIf(st, overflow256(r), "TruncateInt-out-of-bound", ci.pos)
		return r
	})
	reg(dec+"RoundInt", "round-half-even(a / 10^18); panics iff |result| >= 2^256", func(x *Exec, st *State, ci *callInfo, a []Val) Val {
		r := chopRound(tt(a[0]))
		x.panicIf(st, overflow256(r), "RoundInt-out-of-bound", ci.pos)
		return r
	})
	for name, f := range map[string]func(a, b T) T{"GT": Gt, "GTE": Ge, "LT": Lt, "LTE": Le, "Equal": Eq} {
		f := f
		reg(dec+name, "decimal comparison", func(x *Exec, st *State, ci *callInfo, a []Val) Val { return f(tt(a[0]), tt(a[1])) })
	}
	reg(dec+"IsNegative", "a < 0", func(x *Exec, st *State, ci *callInfo, a []Val) Val { return Lt(tt(a[0]), IntLit(0)) })
	reg(dec+"IsPositive", "a > 0", func(x *Exec, st *State, ci *callInfo, a []Val) Val { return Gt(tt(a[0]), IntLit(0)) })
	reg(dec+"IsZero", "a == 0", func(x *Exec, st *State, ci *callInfo, a []Val) Val { return Eq(tt(a[0]), IntLit(0)) })
	reg(dec+"IsNil", "false", func(x *Exec, st *State, ci *callInfo, a []Val) Val { return TFalse })
	reg(sdkT+"NewDec", "n * 10^18", func(x *Exec, st *State, ci *callInfo, a []Val) Val { return Mul(tt(a[0]), T{S: e18, So: SInt}) })
	reg(sdkT+"ZeroDec", "0", func(x *Exec, st *State, ci *callInfo, a []Val) Val { return IntLit(0) })
	reg(sdkT+"OneDec", "10^18", func(x *Exec, st *State, ci *callInfo, a []Val) Val { return T{S: e18, So: SInt} })
	reg(sdkT+"NewDecFromInt", "n * 10^18", func(x *Exec, st *State, ci *callInfo, a []Val) Val { return Mul(tt(a[0]), T{S: e18, So: SInt}) })

	// ---- sdk.Coin --------------------------------------------------------------------------------------
	reg(sdkT+"NewCoin", "Coin{denom, amount}; panics iff amount < 0 (invalid denom panic is assumed away: denoms come from the token list)", func(x *Exec, st *State, ci *callInfo, a []Val) Val {
		x.panicIf(st, Lt(tt(a[1]), IntLit(0)), "NewCoin-negative-amount", ci.pos)
		x.e.note("denominations stored in the token list are valid sdk denoms (NewCoin's denom panic is not modelled)")
		return x.mkCoin(ci, tt(a[0]), tt(a[1]))
	})
	reg(sdkT+"NewInt64Coin", "Coin{denom, n}; panics iff n < 0", func(x *Exec, st *State, ci *callInfo, a []Val) Val {
		x.panicIf(st, Lt(tt(a[1]), IntLit(0)), "NewCoin-negative-amount", ci.pos)
		return x.mkCoin(ci, tt(a[0]), tt(a[1]))
	})
	coin := "(" + sdkT + "Coin)."
	reg(coin+"Add", "panics iff denoms differ or 256-bit overflow; else amounts added", func(x *Exec, st *State, ci *callInfo, a []Val) Val {
		d1, a1 := coinOf(x, a[0])
		d2, a2 := coinOf(x, a[1])
		x.panicIf(st, Not(Eq(d1, d2)), "Coin.Add-denom-mismatch", ci.pos)
		r := Add(a1, a2)
		x.panicIf(st, overflow256(r), "Int-overflow-Add", ci.pos)
		return x.mkCoin(ci, d1, r)
	})
	reg(coin+"Sub", "panics iff denoms differ or result negative", func(x *Exec, st *State, ci *callInfo, a []Val) Val {
		d1, a1 := coinOf(x, a[0])
		d2, a2 := coinOf(x, a[1])
		x.panicIf(st, Not(Eq(d1, d2)), "Coin.Sub-denom-mismatch", ci.pos)
		r := Sub(a1, a2)
		x.panicIf(st, Lt(r, IntLit(0)), "Coin.Sub-negative-result", ci.pos)
		return x.mkCoin(ci, d1, r)
	})
	reg(coin+"SubAmount", "panics iff result negative", func(x *Exec, st *State, ci *callInfo, a []Val) Val {
		d1, a1 := coinOf(x, a[0])
		r := Sub(a1, tt(a[1]))
		x.panicIf(st, Lt(r, IntLit(0)), "Coin.SubAmount-negative-result", ci.pos)
		return x.mkCoin(ci, d1, r)
	})
	reg(coin+"AddAmount", "amount added", func(x *Exec, st *State, ci *callInfo, a []Val) Val {
		d1, a1 := coinOf(x, a[0])
		return x.mkCoin(ci, d1, Add(a1, tt(a[1])))
	})
	for name, f := range map[string]func(a, b T) T{"IsLT": Lt, "IsGTE": Ge, "IsEqual": Eq} {
		f := f
		name := name
		reg(coin+name, "panics iff denoms differ; compares amounts", func(x *Exec, st *State, ci *callInfo, a []Val) Val {
			d1, a1 := coinOf(x, a[0])
			d2, a2 := coinOf(x, a[1])
			x.panicIf(st, Not(Eq(d1, d2)), "Coin."+name+"-denom-mismatch", ci.pos)
			return f(a1, a2)
		})
	}
	reg(coin+"IsValid", "denom valid (uninterpreted validdenom) and amount >= 0 (a nil amount is not modelled)", func(x *Exec, st *State, ci *callInfo, a []Val) Val {
		d, am := coinOf(x, a[0])
		x.e.declareFun("uf_validdenom", "(String) Bool")
		return And(app(SBool, "uf_validdenom", d), Ge(am, IntLit(0)))
	})
	reg(coin+"IsPositive", "amount > 0", func(x *Exec, st *State, ci *callInfo, a []Val) Val { _, am := coinOf(x, a[0]); return Gt(am, IntLit(0)) })
	reg(coin+"IsZero", "amount == 0", func(x *Exec, st *State, ci *callInfo, a []Val) Val { _, am := coinOf(x, a[0]); return Eq(am, IntLit(0)) })
	reg(coin+"IsNegative", "amount < 0", func(x *Exec, st *State, ci *callInfo, a []Val) Val { _, am := coinOf(x, a[0]); return Lt(am, IntLit(0)) })
	reg(sdkT+"NewCoins", "single-coin Coins{c}; zero coins are dropped by the real NewCoins, modelled by the bank treating zero amounts as no-ops; panics on negative amount", func(x *Exec, st *State, ci *callInfo, a []Val) Val {
		els := x.coinsElems(st, a[0])
		for _, el := range els {
			_, am := coinOf(x, el)
			x.panicIf(st, Lt(am, IntLit(0)), "NewCoins-negative-amount", ci.pos)
		}
		return a[0]
	})

	// ---- math/big --------------------------------------------------------------------------------------
	reg("math/big.NewInt", "fresh *big.Int with value n", func(x *Exec, st *State, ci *callInfo, a []Val) Val { return x.newBig(st, tt(a[0])) })
	reg("(*math/big.Int).Exp", "z = x^y for base 10 and y >= 0 (mod nil): pow10(y); other bases not modelled", func(x *Exec, st *State, ci *callInfo, a []Val) Val {
		base := x.bigOf(st, a[1], ci)
		ex := x.bigOf(st, a[2], ci)
		if base.S != "10" {
			x.fail("big.Int.Exp with base %s is not modelled", base.S)
		}
		if p, ok := a[3].(*PtrV); !ok || p.Nil.S != "true" {
			x.fail("big.Int.Exp with modulus is not modelled")
		}
		return x.setBig(st, a[0], Ite(Le(ex, IntLit(0)), IntLit(1), app(SInt, "pow10", ex)))
	})
	bigBin := func(name, doc string, f func(x *Exec, st *State, ci *callInfo, a, b T) T) {
		reg("(*math/big.Int)."+name, doc, func(x *Exec, st *State, ci *callInfo, a []Val) Val {
			return x.setBig(st, a[0], f(x, st, ci, x.bigOf(st, a[1], ci), x.bigOf(st, a[2], ci)))
		})
	}
	bigBin("Mul", "z = x*y (in place)", func(x *Exec, st *State, ci *callInfo, a, b T) T { return Mul(a, b) })
	bigBin("Add", "z = x+y (in place)", func(x *Exec, st *State, ci *callInfo, a, b T) T { return Add(a, b) })
	bigBin("Sub", "z = x-y (in place)", func(x *Exec, st *State, ci *callInfo, a, b T) T { return Sub(a, b) })
	bigBin("Div", "z = Euclidean x div y; panics iff y == 0", func(x *Exec, st *State, ci *callInfo, a, b T) T {
		x.panicIf(st, Eq(b, IntLit(0)), "big.Int-division-by-zero", ci.pos)
		return EDiv(a, b)
	})
	bigBin("Quo", "z = truncated x / y; panics iff y == 0", func(x *Exec, st *State, ci *callInfo, a, b T) T {
		x.panicIf(st, Eq(b, IntLit(0)), "big.Int-division-by-zero", ci.pos)
		return TQuo(a, b)
	})
	bigBin("Mod", "z = Euclidean x mod y; panics iff y == 0", func(x *Exec, st *State, ci *callInfo, a, b T) T {
		x.panicIf(st, Eq(b, IntLit(0)), "big.Int-division-by-zero", ci.pos)
		return EMod(a, b)
	})
	reg("(*math/big.Int).BitLen", "bit length: only BitLen() > 256 <=> |v| >= 2^256 is axiomatised", func(x *Exec, st *State, ci *callInfo, a []Val) Val {
		v := x.bigOf(st, a[0], ci)
		x.e.declareFun("bitlen", "(Int) Int")
		r := app(SInt, "bitlen", v)
		st.assume(And(Ge(r, IntLit(0)), Eq(Gt(r, IntLit(256)), overflow256(v))), "bitlen axioms")
		return r
	})
	reg("(*math/big.Int).Bytes", "big-endian magnitude bytes, minimal length (uninterpreted bigbytes(|v|))", func(x *Exec, st *State, ci *callInfo, a []Val) Val {
		v := x.bigOf(st, a[0], ci)
		x.e.declareFun("bigbytes", "(Int) String")
		x.e.declareFun("bigdec", "(String) Int")
		x.e.addAxiom("(assert (forall ((n Int)) (! (=> (>= n 0) (= (bigdec (bigbytes n)) n)) :pattern ((bigbytes n)))))")
		r := app(SString, "bigbytes", app(SInt, "abs_", v))
		r.Segs = []Seg{{Kind: "bigbytes", S: r.S, Arg: v.S}}
		return r
	})
	reg("(*math/big.Int).FillBytes", "fill32(|v|) for a 32-byte buffer; panics iff |v| >= 2^256", func(x *Exec, st *State, ci *callInfo, a []Val) Val {
		v := x.bigOf(st, a[0], ci)
		buf := tt(a[1])
		if n, ok := isLit(StrLen(buf)); !ok || n != 32 {
			x.fail("FillBytes with a buffer that is not 32 bytes")
		}
		x.panicIf(st, overflow256(v), "FillBytes-buffer-too-small", ci.pos)
		r := app(SString, "fill32", app(SInt, "abs_", v))
		r.Segs = []Seg{{Kind: "fill32", S: r.S, Arg: app(SInt, "abs_", v).S}}
		return r
	})
	reg("(*math/big.Int).Cmp", "sign of x-y", func(x *Exec, st *State, ci *callInfo, a []Val) Val {
		p, q := x.bigOf(st, a[0], ci), x.bigOf(st, a[1], ci)
		return Ite(Lt(p, q), IntLit(-1), Ite(Gt(p, q), IntLit(1), IntLit(0)))
	})
	reg("(*math/big.Int).Sign", "sign", func(x *Exec, st *State, ci *callInfo, a []Val) Val {
		p := x.bigOf(st, a[0], ci)
		return Ite(Lt(p, IntLit(0)), IntLit(-1), Ite(Gt(p, IntLit(0)), IntLit(1), IntLit(0)))
	})
	reg("(*math/big.Int).Uint64", "low 64 bits of |v|", func(x *Exec, st *State, ci *callInfo, a []Val) Val {
		return EMod(app(SInt, "abs_", x.bigOf(st, a[0], ci)), BigLit(two64))
	})
	reg("(*math/big.Int).SetUint64", "z = n", func(x *Exec, st *State, ci *callInfo, a []Val) Val { return x.setBig(st, a[0], tt(a[1])) })
	reg("(*math/big.Int).SetInt64", "z = n", func(x *Exec, st *State, ci *callInfo, a []Val) Val { return x.setBig(st, a[0], tt(a[1])) })
	reg("(*math/big.Int).Set", "z = x", func(x *Exec, st *State, ci *callInfo, a []Val) Val { return x.setBig(st, a[0], x.bigOf(st, a[1], ci)) })
	reg("(*math/big.Int).SetBytes", "z = big-endian value of bytes (uninterpreted bytesbig)", func(x *Exec, st *State, ci *callInfo, a []Val) Val {
		x.e.declareFun("bytesbig", "(String) Int")
		v := app(SInt, "bytesbig", tt(a[1]))
		st.assume(Ge(v, IntLit(0)), "SetBytes >= 0")
		return x.setBig(st, a[0], v)
	})

	// ---- bytes / encoding ------------------------------------------------------------------------------
	reg("bytes.Join", "concatenation of the parts with the separator (only empty separators are modelled); parts keep their boundaries", func(x *Exec, st *State, ci *callInfo, a []Val) Val {
		sl, ok := a[0].(*SliceV)
		if !ok {
			x.fail("bytes.Join on %T", a[0])
		}
		if sep := tt(a[1]); StrLen(sep).S != "0" {
			x.fail("bytes.Join with non-empty separator")
		}
		n, ok := isLit(sl.Len)
		if !ok {
			x.fail("bytes.Join of a slice with symbolic length")
		}
		var parts []T
		var segs []Seg
		for i := int64(0); i < n; i++ {
			idx := Add(sl.Off, IntLit(i))
			p := tt(x.e.getPath(st, st.Heap[sl.Back], []PathEl{{Field: -1, Idx: &idx}}))
			parts = append(parts, p)
			switch {
			case p.Segs != nil && len(p.Segs) == 1:
				segs = append(segs, p.Segs[0])
			case p.Segs != nil && len(p.Segs) == 0:
				segs = append(segs, Seg{Kind: "const", Lit: []byte{}, S: `""`})
			case p.Segs != nil:
				allConst := true
				var lit []byte
				for _, s := range p.Segs {
					if s.Kind != "const" {
						allConst = false
					}
					lit = append(lit, s.Lit...)
				}
				if allConst {
					segs = append(segs, Seg{Kind: "const", Lit: lit, S: p.S})
				} else {
					segs = append(segs, Seg{Kind: "grp", S: p.S})
				}
			default:
				segs = append(segs, Seg{Kind: "str", S: p.S})
			}
		}
		r := Concat(parts...)
		// keep the part boundaries; the first part stays const so that family classification can peel it
		r.Segs = segs
		return r
	})
	reg("bytes.Compare", "-1/0/1 by lexicographic byte order", func(x *Exec, st *State, ci *callInfo, a []Val) Val {
		p, q := tt(a[0]), tt(a[1])
		return Ite(app(SBool, "str.<", p, q), IntLit(-1), Ite(Eq(p, q), IntLit(0), IntLit(1)))
	})
	reg("bytes.Equal", "byte-wise equality", func(x *Exec, st *State, ci *callInfo, a []Val) Val { return Eq(tt(a[0]), tt(a[1])) })
	reg("bytes.HasPrefix", "prefix test", func(x *Exec, st *State, ci *callInfo, a []Val) Val { return app(SBool, "str.prefixof", tt(a[1]), tt(a[0])) })
	reg("bytes.TrimPrefix", "s without the prefix if present", func(x *Exec, st *State, ci *callInfo, a []Val) Val {
		s, p := tt(a[0]), tt(a[1])
		return Ite(app(SBool, "str.prefixof", p, s), app(SString, "str.substr", s, StrLen(p), Sub(StrLen(s), StrLen(p))), s)
	})
	reg("strings.HasPrefix", "prefix test", func(x *Exec, st *State, ci *callInfo, a []Val) Val { return app(SBool, "str.prefixof", tt(a[1]), tt(a[0])) })
	reg(sdkT+"Uint64ToBigEndian", "u64be(n): 8 bytes", func(x *Exec, st *State, ci *callInfo, a []Val) Val {
		r := app(SString, "u64be", tt(a[0]))
		r.Segs = []Seg{{Kind: "u64", S: r.S, Arg: tt(a[0]).S}}
		return r
	})
	reg("(encoding/binary.bigEndian).Uint64", "u64dec(b); panics iff len(b) < 8", func(x *Exec, st *State, ci *callInfo, a []Val) Val {
		b := tt(a[1])
		x.panicIf(st, Lt(StrLen(b), IntLit(8)), "BigEndian.Uint64-short-buffer", ci.pos)
		return app(SInt, "u64dec", b)
	})
	reg("crypto/sha256.Sum256", "sha256 as an uninterpreted 32-byte function", func(x *Exec, st *State, ci *callInfo, a []Val) Val {
		x.e.declareFun("uf_sha256", "(String) String")
		if len(st.Frames) == 1 {
			x.shaArgs = append(x.shaArgs, tt(a[0]))
			x.shaPCs = append(x.shaPCs, append([]T(nil), st.PC...))
		}
		r := app(SString, "uf_sha256", tt(a[0]))
		st.assume(Eq(StrLen(r), IntLit(32)), "sha256 length")
		return r
	})
	reg("encoding/json.Marshal", "json(v): an uninterpreted function of the value, never failing for the string slices it is used on", func(x *Exec, st *State, ci *callInfo, a []Val) Val {
		iv, ok := a[0].(*IfaceV)
		if !ok || iv.Sym || iv.Typ == nil {
			x.fail("json.Marshal of %T", a[0])
		}
		so := x.e.sortOf(iv.Typ)
		fn := "uf_json_" + mangle(so)
		x.e.declareFun(fn, "("+so+") String")
		return &TupleV{Vs: []Val{app(SString, fn, x.e.reify(st, iv.V, iv.Typ)), &ErrV{IsNil: TTrue}}}
	})
	reg("(github.com/tendermint/tendermint/libs/bytes.HexBytes).Bytes", "the bytes themselves", func(x *Exec, st *State, ci *callInfo, a []Val) Val { return a[0] })
	reg("fmt.Sprintf", "Sprintf(\"%x\", bytes) = hexenc(bytes) (uninterpreted, injective); any other format: an arbitrary string", func(x *Exec, st *State, ci *callInfo, a []Val) Val {
		if f, ok := a[0].(T); ok && f.S == `"%x"` {
			if sl, ok := a[1].(*SliceV); ok {
				if n, lit := isLit(sl.Len); lit && n == 1 {
					el := x.e.getPath(st, st.Heap[sl.Back], []PathEl{{Field: -1, Idx: &sl.Off}})
					if iv, ok := el.(*IfaceV); ok && !iv.Sym && iv.Typ != nil {
						var arg T
						okArg := false
						switch v := iv.V.(type) {
						case T:
							if v.So == SString {
								arg, okArg = v, true
							}
						case *SliceV:
							if c := x.coerceBufs(st, []Val{v}); len(c) == 1 {
								if t, isT := c[0].(T); isT {
									arg, okArg = t, true
								}
							}
						}
						if okArg {
							x.e.declareFun("uf_hexenc", "(String) String")
							x.e.declareFun("uf_hexdec", "(String) String")
							x.e.addAxiom("(assert (forall ((s String)) (! (= (uf_hexdec (uf_hexenc s)) s) :pattern ((uf_hexenc s)))))")
							return app(SString, "uf_hexenc", arg)
						}
					}
				}
			}
		}
		x.unmodelled["fmt.Sprintf"] = true
		return x.e.fresh("sprintf", SString)
	})
	reg("strings.ToLower", "tolower(s) (uninterpreted, length-preserving)", func(x *Exec, st *State, ci *callInfo, a []Val) Val {
		x.e.declareFun("uf_tolower", "(String) String")
		r := app(SString, "uf_tolower", tt(a[0]))
		st.assume(Eq(StrLen(r), StrLen(tt(a[0]))), "ToLower keeps the length (ASCII addresses)")
		return r
	})
	reg("github.com/tendermint/tendermint/crypto/tmhash.Sum", "sha256: computed for literal inputs, otherwise an uninterpreted 32-byte function", func(x *Exec, st *State, ci *callInfo, a []Val) Val {
		in := tt(a[0])
		if len(in.Segs) == 1 && in.Segs[0].Kind == "const" {
			h := sha256.Sum256(in.Segs[0].Lit)
			return T{S: smtStrLit(h[:]), So: SString, Segs: []Seg{{Kind: "const", Lit: h[:], S: smtStrLit(h[:])}}}
		}
		x.e.declareFun("uf_sha256", "(String) String")
		r := app(SString, "uf_sha256", in)
		st.assume(Eq(StrLen(r), IntLit(32)), "sha256 length")
		return r
	})
	reg("github.com/ethereum/go-ethereum/crypto.Keccak256Hash", "keccak256 as an uninterpreted 32-byte function of the concatenated inputs", func(x *Exec, st *State, ci *callInfo, a []Val) Val {
		x.e.declareFun("uf_keccak", "(String) String")
		els := x.sliceTerms(st, a[0])
		r := app(SString, "uf_keccak", Concat(els...))
		st.assume(Eq(StrLen(r), IntLit(32)), "keccak length")
		return r
	})
	reg("github.com/ethereum/go-ethereum/crypto.Keccak256", "keccak256 as an uninterpreted 32-byte function of the concatenated inputs", func(x *Exec, st *State, ci *callInfo, a []Val) Val {
		x.e.declareFun("uf_keccak", "(String) String")
		els := x.sliceTerms(st, a[0])
		r := app(SString, "uf_keccak", Concat(els...))
		st.assume(Eq(StrLen(r), IntLit(32)), "keccak length")
		return r
	})
	const gcr = "github.com/ethereum/go-ethereum/crypto."
	reg(gcr+"SigToPub", "(pubkey, err): err == nil iff recoverok(hash, sig); the key is identified with recoveraddr(hash, sig)", func(x *Exec, st *State, ci *callInfo, a []Val) Val {
		x.e.declareFun("uf_recoverok", "(String String) Bool")
		x.e.declareFun("uf_recoveraddr", "(String String) String")
		ok := app(SBool, "uf_recoverok", tt(a[0]), tt(a[1]))
		addr := app(SString, "uf_recoveraddr", tt(a[0]), tt(a[1]))
		st.assume(Eq(StrLen(addr), IntLit(20)), "address length")
		o := x.e.newObj(st, &OpaqueV{Tag: "pubkey", Data: map[string]Val{"addr": addr}})
		return &TupleV{Vs: []Val{&PtrV{Nil: Not(ok), Obj: o}, &ErrV{IsNil: ok}}}
	})
	reg(gcr+"Sign", "(sign(digest, key), err): uninterpreted; recovering the signer of sign(d, k) over d gives the key's address (not used by the obligations)", func(x *Exec, st *State, ci *callInfo, a []Val) Val {
		x.e.declareFun("uf_sign", "(String) String")
		return &TupleV{Vs: []Val{app(SString, "uf_sign", tt(a[0])), &ErrV{IsNil: x.e.fresh("signok", SBool)}}}
	})
	reg(gcr+"PubkeyToAddress", "the address of the recovered key", func(x *Exec, st *State, ci *callInfo, a []Val) Val {
		if o, ok := a[0].(*OpaqueV); ok && o.Tag == "pubkey" {
			return o.Data["addr"]
		}
		x.fail("PubkeyToAddress of %T", a[0])
		return nil
	})
	reg("(github.com/ethereum/go-ethereum/common.Hash).Bytes", "the 32 bytes", func(x *Exec, st *State, ci *callInfo, a []Val) Val { return a[0] })

	// ---- addresses -------------------------------------------------------------------------------------
	uf1 := func(name string, res string) func(x *Exec, arg T) T {
		return func(x *Exec, arg T) T {
			x.e.declareFun("uf_"+name, "(String) "+res)
			return app(res, "uf_"+name, arg)
		}
	}
	_ = uf1
	bechFork := func(okFn, fromFn, toFn string) libFn {
		return func(x *Exec, st *State, ci *callInfo, args []Val, k func(*State, Val)) {
			x.usedModels[ci.name] = "forks: valid input -> (decode(s), nil) with encode(decode(s)) == s and non-empty bytes; invalid -> (empty, err)"
			s := tt(args[0])
			x.e.declareFun(okFn, "(String) Bool")
			x.e.declareFun(fromFn, "(String) String")
			x.e.declareFun(toFn, "(String) String")
			ok := app(SBool, okFn, s)
			addr := app(SString, fromFn, s)
			if pcHas(st, ok) {
				k(st, &TupleV{Vs: []Val{addr, &ErrV{IsNil: TTrue}}})
				return
			}
			if pcHas(st, Not(ok)) {
				k(st, &TupleV{Vs: []Val{T{S: `""`, So: SString}, &ErrV{IsNil: TFalse}}})
				return
			}
			bad := st.clone()
			x.paths++
			st.assume(ok, "valid bech32")
			st.assume(And(Eq(app(SString, toFn, addr), s), Gt(StrLen(addr), IntLit(0))), "bech32 round trip")
			x.tryPath(func() { k(st, &TupleV{Vs: []Val{addr, &ErrV{IsNil: TTrue}}}) })
			bad.assume(Not(ok), "invalid bech32")
			x.tryPath(func() { k(bad, &TupleV{Vs: []Val{T{S: `""`, So: SString}, &ErrV{IsNil: TFalse}}}) })
		}
	}
	libModels[sdkT+"AccAddressFromBech32"] = bechFork("uf_bech32ok", "uf_accFromBech32", "uf_bech32acc")
	libModels[sdkT+"ValAddressFromBech32"] = bechFork("uf_bech32valok", "uf_valFromBech32", "uf_bech32val")
	strModel := func(okFn, fromFn, toFn string) func(x *Exec, st *State, ci *callInfo, a []Val) Val {
		return func(x *Exec, st *State, ci *callInfo, a []Val) Val {
			b := tt(a[0])
			x.e.declareFun(okFn, "(String) Bool")
			x.e.declareFun(fromFn, "(String) String")
			x.e.declareFun(toFn, "(String) String")
			// decode(s).String() == s when s was decoded successfully on this path
			pre := "(" + fromFn + " "
			if strings.HasPrefix(b.S, pre) && strings.HasSuffix(b.S, ")") {
				inner := T{S: b.S[len(pre) : len(b.S)-1], So: SString}
				if pcHas(st, app(SBool, okFn, inner)) {
					return inner
				}
			}
			s := app(SString, toFn, b)
			st.assume(Implies(Gt(StrLen(b), IntLit(0)), And(app(SBool, okFn, s), Eq(app(SString, fromFn, s), b))), "bech32 round trip")
			return s
		}
	}
	reg("("+sdkT+"AccAddress).String", "bech32acc(bytes); decoding it gives the bytes back (non-empty addresses)", strModel("uf_bech32ok", "uf_accFromBech32", "uf_bech32acc"))
	reg("("+sdkT+"ValAddress).String", "bech32val(bytes); decoding it gives the bytes back (non-empty addresses)", strModel("uf_bech32valok", "uf_valFromBech32", "uf_bech32val"))
	reg("("+sdkT+"AccAddress).Bytes", "the bytes", func(x *Exec, st *State, ci *callInfo, a []Val) Val { return a[0] })
	reg("("+sdkT+"ValAddress).Bytes", "the bytes", func(x *Exec, st *State, ci *callInfo, a []Val) Val { return a[0] })
	reg(sdkT+"AccAddressFromHex", "(hex2bytes(s), err): err iff s is empty or not hex", func(x *Exec, st *State, ci *callInfo, a []Val) Val {
		s := tt(a[0])
		x.e.declareFun("uf_hex2bytes", "(String) String")
		x.e.declareFun("uf_ishex", "(String) Bool")
		ok := And(Gt(StrLen(s), IntLit(0)), app(SBool, "uf_ishex", s))
		return &TupleV{Vs: []Val{app(SString, "uf_hex2bytes", s), &ErrV{IsNil: ok}}}
	})
	const gc = "github.com/ethereum/go-ethereum/common."
	reg(gc+"HexToAddress", "hexaddr(s): 20 bytes", func(x *Exec, st *State, ci *callInfo, a []Val) Val {
		x.e.declareFun("uf_hexaddr", "(String) String")
		r := app(SString, "uf_hexaddr", tt(a[0]))
		st.assume(Eq(StrLen(r), IntLit(20)), "address length")
		return r
	})
	reg(gc+"BytesToAddress", "left-padded / truncated to 20 bytes (uninterpreted bytes2addr); identity on 20-byte inputs", func(x *Exec, st *State, ci *callInfo, a []Val) Val {
		x.e.declareFun("uf_bytes2addr", "(String) String")
		b := tt(a[0])
		r := app(SString, "uf_bytes2addr", b)
		st.assume(And(Eq(StrLen(r), IntLit(20)), Implies(Eq(StrLen(b), IntLit(20)), Eq(r, b)), Implies(Eq(StrLen(b), IntLit(0)), Eq(r, T{S: smtStrLit(make([]byte, 20)), So: SString}))), "BytesToAddress")
		return r
	})
	reg("("+gc+"Address).Hex", "addrhex(a): checksummed 0x… string, injective, hexaddr(addrhex(a)) = a", func(x *Exec, st *State, ci *callInfo, a []Val) Val {
		x.e.declareFun("uf_addrhex", "(String) String")
		x.e.declareFun("uf_hexaddr", "(String) String")
		r := app(SString, "uf_addrhex", tt(a[0]))
		zero := T{S: smtStrLit(make([]byte, 20)), So: SString}
		st.assume(And(Eq(StrLen(r), IntLit(42)), Eq(app(SString, "uf_hexaddr", r), tt(a[0])),
			Eq(Eq(r, StrLit("0x0000000000000000000000000000000000000000")), Eq(tt(a[0]), zero))), "Address.Hex")
		return r
	})
	reg("("+gc+"Address).Bytes", "the 20 bytes", func(x *Exec, st *State, ci *callInfo, a []Val) Val { return a[0] })
	reg("("+gc+"Address).String", "same as Hex", func(x *Exec, st *State, ci *callInfo, a []Val) Val {
		x.e.declareFun("uf_addrhex", "(String) String")
		return app(SString, "uf_addrhex", tt(a[0]))
	})
	reg(gc+"IsHexAddress", "ishexaddr(s) (uninterpreted); implies len in {40,42}", func(x *Exec, st *State, ci *callInfo, a []Val) Val {
		x.e.declareFun("uf_ishexaddr", "(String) Bool")
		s := tt(a[0])
		r := app(SBool, "uf_ishexaddr", s)
		st.assume(Implies(r, Or(Eq(StrLen(s), IntLit(40)), Eq(StrLen(s), IntLit(42)))), "IsHexAddress length")
		return r
	})
	reg(gc+"Hex2Bytes", "hex2bytes(s) (uninterpreted): decodes the longest valid hex prefix; EMPTY for strings starting with 0x", func(x *Exec, st *State, ci *callInfo, a []Val) Val {
		x.e.declareFun("uf_hex2bytes", "(String) String")
		s := tt(a[0])
		r := app(SString, "uf_hex2bytes", s)
		st.assume(Implies(app(SBool, "str.prefixof", StrLit("0x"), s), Eq(r, T{S: `""`, So: SString})), "Hex2Bytes of 0x-prefixed input is empty")
		r.Segs = []Seg{{Kind: "hex2bytes", S: r.S, Arg: s.S}}
		return r
	})

	// ---- sdk.Context -----------------------------------------------------------------------------------
	ctxm := "(" + sdkT + "Context)."
	reg(ctxm+"KVStore", "handle on the module's KV store in the context's world", func(x *Exec, st *State, ci *callInfo, a []Val) Val {
		c := a[0].(*CtxV)
		name := "Store"
		for f := ci.fr.fn; f != nil; f = f.Parent() {
			if f.Pkg != nil && strings.Contains(f.Pkg.Pkg.Path(), "/x/oracle") {
				name = "OStore"
			}
		}
		return &OpaqueV{Tag: "kvstore", Data: map[string]Val{"world": IntLit(int64(c.World)), "name": T{S: name}}}
	})
	reg(ctxm+"BlockHeight", "block height (int64 >= 0)", func(x *Exec, st *State, ci *callInfo, a []Val) Val { return a[0].(*CtxV).Height })
	reg(ctxm+"BlockTime", "block time (ns since epoch as Int)", func(x *Exec, st *State, ci *callInfo, a []Val) Val { return a[0].(*CtxV).Time })
	reg(ctxm+"TxBytes", "opaque tx bytes", func(x *Exec, st *State, ci *callInfo, a []Val) Val { return x.e.fresh("txbytes", SString) })
	reg(ctxm+"CacheContext", "child context on a copy of the ghost state + commit closure installing it into the parent", func(x *Exec, st *State, ci *callInfo, a []Val) Val {
		c := a[0].(*CtxV)
		x.e.nextWorld++
		w := x.e.nextWorld
		nw := map[string]T{}
		for g, t := range st.Worlds[c.World] {
			nw[g] = t
		}
		st.Worlds[w] = nw
		return &TupleV{Vs: []Val{&CtxV{World: w, Height: c.Height, Time: c.Time}, &CommitV{From: w, To: c.World}}}
	})
	reg(sdkT+"UnwrapSDKContext", "the sdk.Context carried by the Go context", func(x *Exec, st *State, ci *callInfo, a []Val) Val {
		if c, ok := a[0].(*CtxV); ok {
			return c
		}
		if o, ok := a[0].(*OpaqueV); ok {
			if c, ok := o.Data["sdkctx"]; ok {
				return c
			}
			c := x.e.freshVal(st, "ctx", ci.sig.Results().At(0).Type())
			if o.Data == nil {
				o.Data = map[string]Val{}
			}
			o.Data["sdkctx"] = c
			return c
		}
		x.fail("UnwrapSDKContext of %T", a[0])
		return nil
	})
	reg(sdkT+"WrapSDKContext", "identity", func(x *Exec, st *State, ci *callInfo, a []Val) Val { return a[0] })

	// ---- time ------------------------------------------------------------------------------------------
	reg("time.Unix", "sec*1e9 + nsec (ns since epoch)", func(x *Exec, st *State, ci *callInfo, a []Val) Val {
		return Add(Mul(tt(a[0]), IntLit(1000000000)), tt(a[1]))
	})
	reg("(time.Time).Add", "t + d (no overflow)", func(x *Exec, st *State, ci *callInfo, a []Val) Val {
		x.e.note("time.Time / time.Duration arithmetic is exact (no saturation or overflow)")
		return Add(tt(a[0]), tt(a[1]))
	})
	reg("(time.Time).Before", "t < u", func(x *Exec, st *State, ci *callInfo, a []Val) Val { return Lt(tt(a[0]), tt(a[1])) })
	reg("(time.Time).After", "t > u", func(x *Exec, st *State, ci *callInfo, a []Val) Val { return Gt(tt(a[0]), tt(a[1])) })
	reg("(time.Time).Unix", "floor(t / 1e9)", func(x *Exec, st *State, ci *callInfo, a []Val) Val { return EDiv(tt(a[0]), IntLit(1000000000)) })

	// ---- sort ------------------------------------------------------------------------------------------
	reg("sort.Strings", "in-place sort: contents become an unspecified permutation (fresh array of the same length)", func(x *Exec, st *State, ci *callInfo, a []Val) Val {
		if sl, ok := a[0].(*SliceV); ok && sl.Back >= 0 {
			x.sortHavoc(st, sl)
		}
		return nil
	})
	reg("sort.Slice", "in-place sort: contents become an unspecified permutation (fresh array of the same length)", func(x *Exec, st *State, ci *callInfo, a []Val) Val {
		if iv, ok := a[0].(*IfaceV); ok {
			if sl, ok := iv.V.(*SliceV); ok && sl.Back >= 0 {
				x.sortHavoc(st, sl)
			}
		}
		return nil
	})
	reg("math.Ceil", "ceiling", func(x *Exec, st *State, ci *callInfo, a []Val) Val {
		t := tt(a[0])
		fl := app(SInt, "to_int", t)
		return Ite(Eq(app(SReal, "to_real", fl), t), t, app(SReal, "to_real", Add(fl, IntLit(1))))
	})
	reg("math.Abs", "absolute value", func(x *Exec, st *State, ci *callInfo, a []Val) Val {
		t := tt(a[0])
		return Ite(Ge(t, T{S: "0.0", So: SReal}), t, app(SReal, "-", t))
	})
	reg("strconv.Atoi", "(atoi(s), err) uninterpreted", func(x *Exec, st *State, ci *callInfo, a []Val) Val {
		x.e.declareFun("uf_atoi", "(String) Int")
		x.e.declareFun("uf_atoiok", "(String) Bool")
		return &TupleV{Vs: []Val{app(SInt, "uf_atoi", tt(a[0])), &ErrV{IsNil: app(SBool, "uf_atoiok", tt(a[0]))}}}
	})
	reg(sdkT+"ValidateDenom", "err == nil iff validdenom(s) (uninterpreted)", func(x *Exec, st *State, ci *callInfo, a []Val) Val {
		x.e.declareFun("uf_validdenom", "(String) Bool")
		return &ErrV{IsNil: app(SBool, "uf_validdenom", tt(a[0]))}
	})
}

// sortHavoc: an in-place sort leaves a permutation of the old contents: new[j] = old[p(j)] with p a bijection of
// the slice's index range (p and its inverse are fresh functions per call). The order itself is not modelled.
func (x *Exec) sortHavoc(st *State, sl *SliceV) {
	old, isT := st.Heap[sl.Back].(T)
	st.Heap[sl.Back] = x.havocLike(st, st.Heap[sl.Back], sl.Back)
	if st.Written != nil {
		st.Written[sl.Back] = true
	}
	nw, isT2 := st.Heap[sl.Back].(T)
	if !isT || !isT2 || !strings.HasPrefix(old.So, "(Array Int ") {
		return
	}
	x.e.nFresh++
	p := fmt.Sprintf("perm!%d", x.e.nFresh)
	q := fmt.Sprintf("pinv!%d", x.e.nFresh)
	x.e.declareFun(p, "(Int) Int")
	x.e.declareFun(q, "(Int) Int")
	lo, hi := sl.Off.S, Add(sl.Off, sl.Len).S
	st.assume(T{S: fmt.Sprintf("(forall ((j Int)) (! (=> (and (<= %s j) (< j %s)) (and (= (select %s j) (select %s (%s j))) (<= %s (%s j)) (< (%s j) %s) (= (%s (%s j)) j))) :pattern ((select %s j))))", lo, hi, nw.S, old.S, p, lo, p, p, hi, q, p, nw.S), So: SBool}, "sorted slice is a permutation (new -> old)")
	st.assume(T{S: fmt.Sprintf("(forall ((i Int)) (! (=> (and (<= %s i) (< i %s)) (and (= (select %s i) (select %s (%s i))) (<= %s (%s i)) (< (%s i) %s) (= (%s (%s i)) i))) :pattern ((select %s i))))", lo, hi, old.S, nw.S, q, lo, q, q, hi, p, q, old.S), So: SBool}, "sorted slice is a permutation (old -> new)")
	st.assume(T{S: fmt.Sprintf("(forall ((j Int)) (! (=> (or (< j %s) (>= j %s)) (= (select %s j) (select %s j))) :pattern ((select %s j))))", lo, hi, nw.S, old.S, nw.S), So: SBool}, "elements outside the sorted range are unchanged")
}

func (x *Exec) sliceTerms(st *State, v Val) []T {
	sl, ok := v.(*SliceV)
	if !ok {
		if _, isNil := v.(NilV); isNil {
			return nil
		}
		x.fail("expected slice, got %T", v)
	}
	if sl.Back < 0 {
		return nil
	}
	n, ok := isLit(sl.Len)
	if !ok {
		x.fail("slice with symbolic length where a literal list is required")
	}
	var res []T
	for i := int64(0); i < n; i++ {
		idx := Add(sl.Off, IntLit(i))
		res = append(res, tt(x.e.getPath(st, st.Heap[sl.Back], []PathEl{{Field: -1, Idx: &idx}})))
	}
	return res
}

// pcHas: the path condition contains the literal t (syntactic check).
func pcHas(st *State, t T) bool {
	for _, h := range st.PC {
		if h.S == t.S {
			return true
		}
	}
	return false
}

func hasPrefixAny(s string, ps ...string) bool {
	for _, p := range ps {
		if strings.HasPrefix(s, p) {
			return true
		}
	}
	return false
}
